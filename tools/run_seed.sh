#!/bin/bash
# tools/run_seed.sh <seed_id> <ID> [tier] — run check <ID> against /verif/seeded/<seed_id>/patch.diff
# applied to /repo (undone afterwards) and record the outcome in the seed's meta.json.
set -u
SID="$1"; ID="$2"; TIER="${3:-quick}"
D=/verif/seeded/$SID
OUT=$(LINES_SHOWN=400 /verif/tools/try_patch.sh "$D/patch.diff" "$ID" "$TIER" 2>&1)
rc=$(echo "$OUT" | sed -n 's/^check exit=//p' | tail -1)
first=$(echo "$OUT" | grep -m1 '^VIOLATION' | sed 's/.*# //' | cut -c1-300)
nv=$(echo "$OUT" | grep -c '^VIOLATION')
echo "$SID vs $ID ($TIER): exit=$rc violations_listed=$nv :: $first"
python3 - "$D/meta.json" "$ID" "$TIER" "$rc" "$first" <<'PY'
import json,sys
p,ID,tier,rc,first=sys.argv[1:6]
m=json.load(open(p))
d=m.get('detected_by') or {}
d[f"{ID}:{tier}"]={"exit":int(rc) if rc.strip().lstrip('-').isdigit() else rc,"detected":rc.strip()=="1","first_violation":first}
m['detected_by']=d
json.dump(m,open(p,'w'),indent=1)
PY
