#!/bin/bash
# tools/confirm_seed.sh <seed_src_dir> <seed_id> <property>
# Confirms a seeded change in a scratch worktree (suite passes with it; demo fails with it and
# passes without it) and, if confirmed, stores it under /verif/seeded/<seed_id>/.
set -u
SRC="$1"; SID="$2"; PROP="$3"
WT=/tmp/wt/confirm
LOGD=/tmp/seed_out/confirm_logs; mkdir -p "$LOGD"
L="$LOGD/$SID.log"; : > "$L"
if [ ! -d "$WT" ]; then git -C /repo worktree add -q --detach "$WT" HEAD || exit 3; fi
cd "$WT" || exit 3
git checkout -q -- . ; rm -f tests/demo.rs
export CARGO_NET_OFFLINE=true
git apply "$SRC/patch.diff" >>"$L" 2>&1 || { echo "$SID: patch does not apply"; exit 1; }
cargo test --workspace --offline --no-fail-fast >>"$L" 2>&1; suite=$?
cp "$SRC/demo.rs" tests/demo.rs
cargo test --offline --test demo ${DEMO_FLAGS:-} >>"$L" 2>&1; with=$?
git checkout -q -- .
cargo test --offline --test demo ${DEMO_FLAGS:-} >>"$L" 2>&1; without=$?
rm -f tests/demo.rs
echo "$SID: suite_with_change=$suite demo_with_change=$with demo_without=$without"
if [ $suite -eq 0 ] && [ $with -ne 0 ] && [ $without -eq 0 ]; then
  D=/verif/seeded/$SID; mkdir -p "$D"
  cp "$SRC/patch.diff" "$SRC/demo.rs" "$D/"; [ -f "$SRC/notes.md" ] && cp "$SRC/notes.md" "$D/notes.md"
  python3 - "$D" "$SID" "$PROP" <<'PY'
import json,sys,os
d,sid,prop=sys.argv[1:4]
notes=open(os.path.join(d,'notes.md')).read() if os.path.exists(os.path.join(d,'notes.md')) else ''
meta={"seed_id":sid,"breaks_property":prop,"origin":"independent sub-agent given only the property text and a scratch worktree",
"needs_to_manifest":"see notes.md (written by the seeding agent)",
"confirmed":{"suite_with_change":"cargo test --workspace --offline --no-fail-fast: exit 0","demo_with_change":"cargo test --offline --test demo %s: FAILED"%os.environ.get("DEMO_FLAGS",""),"demo_without_change":"same command: passed","where":"scratch worktree /tmp/wt/confirm (removed afterwards)"},
"detected_by":None}
json.dump(meta,open(os.path.join(d,'meta.json'),'w'),indent=1)
PY
  exit 0
fi
exit 1
