#!/usr/bin/env python3
"""tools/gen_seed_prompts.py <from-suffix> <to-suffix> <ordinal-word>
Builds the next round's seeding prompts in /tmp/seed_out from the previous round's prompts:
the same property text, a new scratch worktree path, and the list of earlier changes extended
with the previous round's results (title line of notes.md + files touched). Nothing from
/verif's checks is given to the agents."""
import os, re, sys, glob
src, dst, word = sys.argv[1:4]
FOCUS = {
 'h': "This time start from the DOCUMENTATION: read README.md, CHANGELOG.md, the crate-level docs in src/lib.rs and core/src/lib.rs, and the doc comments of the public items in the anchor files. Pick behaviours that the documentation promises (an option's documented meaning, a documented precedence or default, a documented error message / span / location, a documented equivalence between two spellings, an entry in the changelog that says something was fixed or added) and that fall under this property but that no existing test pins down, and break exactly one such documented promise per change - in a way that still reads like an honest refactor or feature tweak. Quote the documentation sentence you broke in notes.md. Avoid anything earlier rounds already covered.",
 'g': "This time aim at SIZE and DEPTH thresholds and at uncommon spellings: a change that is invisible for small inputs and shows only from a threshold on - five or more items in one attribute, four or more attributes, a fourth nesting level, four or more variants or fields, a `multiple` field seen many times, more than 8 / 16 / 32 / 64 errors or map entries, long names, numbers with dozens of digits, deeply nested invisible groups or parentheses - for example a small fixed-capacity buffer, `take(n)` / `chunks(n)` / `windows(2)` slips, u8 counters, recursion limits, `split_at` / `rsplit` on the wrong side, `sort`/`dedup` where order or multiplicity matters, binary search on unsorted data, hashing instead of ordered storage; and at uncommon but legal spellings that take a different branch - raw identifiers, `r#\"raw\"#` and byte / C strings, numbers with suffixes or exponents, `::`-rooted and `crate`/`self`/`super` paths, trailing commas, empty lists, attributes written `#[a{..}]` or `#[a[..]]`, doc comments (`/// x` is `#[doc = \"x\"]`), `cfg_attr`-style nesting. Each change must still keep every small, ordinary case working.",
 'f': "This time aim at SHARED helpers that several paths call, where a refactor-style change stays correct for the main caller and goes wrong for a secondary one: the default methods of the traits in core/src/options/mod.rs (ParseAttribute / ParseData), the code-generation building blocks (Declaration / MatchArm / CheckMissing / Initializer in codegen/field.rs, default_expr.rs, variant_data.rs, outer_from_impl.rs, the attribute extractor), the container-vs-field inheritance in options/core.rs and options/input_field.rs, util helpers (path_to_string, parse_attribute_to_meta_list, Flag, Override, SpannedValue, WithOriginal, PathList, IdentString, ShapeSet), ast::Fields / ast::Data / ast::Generics conversions and their iterators, and Error constructors / combinators. Good candidates: an `if` that special-cases the first or the last element; a `zip` or `skip` that silently truncates when lengths differ; a cache / early return keyed on the wrong thing; hygiene of generated local names (`__errors`, `__default`, `__flatten`, field-named locals) colliding or shadowing in one configuration only; spans taken from the wrong token; an `unwrap_or_default` that hides an error; clone-vs-move changes that alter evaluation order of user callables (`default = ..`, `map`, `and_then`, `with`).",
 'e': "This time aim at the INTERPLAY of two features that are documented separately and at the public helper APIs that both derived code and hand-written macros call: e.g. flatten x container / field defaults, rename_all x rename, forward_attrs x attributes, with x map / and_then, Option / Vec / Result wrappers x defaults and absence, generic receivers x skip / flatten, nested receivers x allow_unknown_fields; constructors, accessors, conversions and trait impls (Display, Debug, PartialEq, Hash, IntoIterator, From, Deref, AsRef, ToTokens) of darling::util, darling::ast, darling::usage and darling::Error. Prefer changes that leave the common case alone and alter behaviour only for boundary sizes (0, 1 or 2 elements), for the SECOND occurrence of something, for inputs in which two names / paths / spans coincide, or for one of two code paths that should agree (from_meta vs from_list vs from_nested_meta; struct vs struct-variant; derive-time check vs generated code).",
 'd': "This time aim at the parts of the statement and quantifier that are LEAST likely to have been exercised so far: rarely used options and traits (FromTypeParam, FromGenerics/FromGenericParam, FromAttributes, `and_then`, `from_none`, `from_word`, `rename_all` variants, `multiple` on non-Vec collections, `with` closures), builds with the `suggestions` feature off, less-visited files among the anchors and the helpers they call, wrong VALUES or wrong MESSAGES / PATHS / SPANS rather than crashes, and off-by-one or ordering slips that only show with 3+ elements or at a specific nesting depth. A change whose effect is visible only in one position of a longer input (first/middle/last) or only for one of several equivalent spellings is ideal.",
}
for pf in sorted(glob.glob(f'/tmp/seed_out/C??{src}.prompt.txt')):
    pid = os.path.basename(pf)[:3]
    t = open(pf).read()
    t = t.replace(f'{pid}{src}', f'{pid}{dst}')
    t = re.sub(r'this is a [A-Z]+ round', f'this is a {word} round', t)
    # extend the list of earlier changes
    extra = []
    for d in sorted(glob.glob(f'/verif/seeded/{pid}{src}-*')):
        notes = os.path.join(d, 'notes.md')
        title = ''
        if os.path.exists(notes):
            title = next((l.strip('# ').strip() for l in open(notes) if l.strip()), '')
        files = sorted(set(re.findall(r'^diff --git a/(\S+)', open(os.path.join(d, 'patch.diff')).read(), re.M)))
        extra.append(f"- {title[:220]} (files: {', '.join(files)})")
    lines = t.split('\n')
    last = max(i for i, l in enumerate(lines) if l.startswith('- '+pid))
    lines[last+1:last+1] = extra
    t = '\n'.join(lines)
    # replace the focus sentence
    t = re.sub(r'(do NOT repeat them or close variants\. ).*?(\n\n- )', lambda m: m.group(1) + FOCUS[dst] + m.group(2), t, count=1, flags=re.S)
    open(f'/tmp/seed_out/{pid}{dst}.prompt.txt', 'w').write(t)
    print(pid, len(extra), 'earlier changes appended')
