#!/bin/bash
# tools/try_patch.sh <patch.diff> <ID> [tier]   — apply a seeded change to /repo, run a check, undo.
# Refuses to run if /repo has uncommitted changes.
set -u
P="$1"; ID="$2"; TIER="${3:-quick}"
if [ -n "$(git -C /repo status --porcelain --untracked-files=no)" ]; then echo "/repo is dirty" >&2; exit 3; fi
git -C /repo apply "$P" || { echo "patch does not apply" >&2; exit 3; }
VERIF_EVIDENCE_DIR=/tmp/seed_out/evidence_scratch /verif/check "$ID" --tier "$TIER" 2>&1 | tail -${LINES_SHOWN:-8}
rc=${PIPESTATUS[0]}
git -C /repo checkout -- .
echo "check exit=$rc"
exit $rc
