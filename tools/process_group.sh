#!/bin/bash
# tools/process_group.sh <group dir name under /tmp/seed_out, e.g. K3>
# File-targeted round: the property id is the first token of notes.md's first line.
G="$1"
git -C /tmp/wt/confirm checkout -q --detach main 2>/dev/null
for k in 1 2 3; do
  src=/tmp/seed_out/$G/$k
  [ -f "$src/patch.diff" ] || continue
  P=$(head -1 "$src/notes.md" | grep -o 'C[0-9][0-9]' | head -1)
  [ -z "$P" ] && { echo "$G/$k: no property id in notes.md"; continue; }
  sid=${P}k-${G#K}$k
  /verif/tools/confirm_seed.sh "$src" "$sid" "$P" || continue
  /verif/tools/run_seed.sh "$sid" "$P" | cut -c1-260
done
