#!/usr/bin/env python3
"""Regenerates /verif/MANIFEST.json from the table below (single source of truth)."""
import json, os
V = os.path.dirname(os.path.dirname(os.path.abspath(__file__)))
# id -> (level, technique, engine, text, note, design_ref)
CHECKS = {
 "C04": ("model_checking", "explicit-state BFS (stateright) over error-building histories on the real Error, reference tree stepped alongside",
         "stateright", "every build history up to the depth bound over 10 operations is replayed on the real darling::Error and compared with a plain reference tree: count, flatten order and paths, Display, idempotence, into_iter, diagnostics",
         "trusts syn/proc-macro2; kind message text taken from darling's own constructors; bound: history length 8 (quick) / 10 (thorough), stack <= 4", "DESIGN.md §4 C04"),
 "C05": ("model_checking", "explicit-state BFS (stateright) over accumulator operation histories on the real Accumulator, Vec reference model; abort-prone cases in a child process",
         "stateright", "every operation history up to the bound, each followed by every terminal operation on a fresh replay, is compared with a Vec reference; drop-during-unwind explored in a child process whose death is the verdict",
         "panic=unwind; bound: history length 5 (quick) / 6 BFS + 7 DFS (thorough)", "DESIGN.md §4 C05"),
 "C11": ("exploration", "bounded-exhaustive enumeration of literals (dense range, boundaries x spellings, float grid) against str::parse and an independent bignum literal evaluator",
         "odometer", "every integer in [-70000,70000] and every boundary magnitude in every radix/underscore/suffix spelling, quoted and bare, alone and inside a list, for all 24 integer targets; float grid incl. f32 rounding midpoints; all bool/char/String/PathBuf forms",
         "std str::parse is the specification of acceptance; syn's literal lexing is trusted", "DESIGN.md §4 C11"),
 "C14": ("model_checking", "bounded-exhaustive enumeration of item lists and key-repetition patterns on the real map conversions, reference map model stepped per item",
         "odometer", "every item list up to length 4/6 over a 9-symbol alphabet and every key-repetition pattern x good/bad mask up to length 6/8 for all 25 map instantiations, compared with a reference map model (entries or leaf multiset); Hash and BTree twins compared",
         "the element type's own conversion defines per-item value outcomes; leaf order not compared", "DESIGN.md §4 C14"),
 "C01": ("model_checking", "bounded-exhaustive exploration of item sequences on compiled derived receivers, reference interpreter stepped alongside (value-tree equality)",
         "odometer", "every item sequence up to the bound, for every generated receiver of the struct corpus (13 field kinds x container configs x six traits), is parsed by the real derived code; on mistake-free inputs the value tree must equal the reference interpreter's",
         "reference interpreter written from the documented semantics; expected message texts come from darling's own constructors; bounds: sequences <= 3 (quick) / 4 (thorough) over per-receiver alphabets, 583 (quick) receivers", "DESIGN.md §4 C01"),
 "C02": ("model_checking", "bounded-exhaustive exploration of item sequences (valid and invalid items) on compiled derived receivers; reference interpreter predicts the multiset of error leaves",
         "odometer", "same exploration as C01; Ok iff no mistake; the multiset of flattened leaves (message, location path) and len() must equal the interpreter's",
         "reference interpreter written from the documented semantics; expected message texts come from darling's own constructors; bounds: sequences <= 3 (quick) / 4 (thorough) over per-receiver alphabets, 583 (quick) receivers; leaf order not compared", "DESIGN.md §4 C02"),
 "C03": ("model_checking", "the C02 exploration with real column spans (proc-macro2 span-locations) + stateright BFS over with_span/at/multiple/flatten histories + exhaustive position sweep of faulty members over built-in collection / scalar targets",
         "odometer+stateright", "every expected leaf's explicit span must lie inside the offending item/value (containment), unspanned only for root absences (then the diagnostic text carries the path), compile_error! tokens sit at the leaf spans; algebra: with_span never overwrites, flatten/diagnostics give each leaf its own or nearest enclosing collection's span",
         "reference interpreter written from the documented semantics; expected message texts come from darling's own constructors; bounds: sequences <= 3 (quick) / 4 (thorough) over per-receiver alphabets, 583 (quick) receivers", "DESIGN.md §4 C03"),
 "C07": ("exploration", "exhaustive enumeration under catch_unwind: the C02 sequence exploration, a hostile-item sweep over every corpus receiver, and every built-in conversion target x a menu of meta items",
         "odometer", "no entry point may unwind: all sequences of the struct corpus, ~500 hostile inputs per receiver (non-meta bodies, wrong forms, 40-digit numbers, depth-64 nesting), 130+ built-in targets x 64 items in two contexts",
         "panic=unwind; allocation failure / stack overflow would abort the process and surface as a machinery error", "DESIGN.md §4 C07"),
 "C09": ("model_checking", "bounded-exhaustive exploration of every input form on compiled derived enums, reference interpreter stepped alongside",
         "odometer", "every generated enum (1-3 variants over 10 variant kinds x container configurations) x bare word, every candidate name in string form, non-string values, every nested-item sequence up to 2/3 in list form, and the absent form; selected variant/payload or error leaves must equal the interpreter's",
         "case rules re-implemented from their names; bounds: <= 3 variants, nested sequences <= 2 (quick) / 3 (thorough)", "DESIGN.md §4 C09"),
 "C08": ("model_checking", "bounded-exhaustive metamorphic exploration: every item sequence x every partition into attributes x name assignments x interleaved foreign attributes on compiled receivers; reference forwarding filter",
         "odometer", "for every item sequence up to 3/4 the single-attribute run is the reference; every split over 1..n attributes with every assignment of declared names and every interleaving with 11 unrelated attributes must give the identical value / identical error list, and `attrs` must equal the reference filter's selection (token-identical, ordered)",
         "single-attribute behaviour is C01/C02's subject; path equality is syn::Path equality", "DESIGN.md §4 C08"),
 "C16": ("exploration", "bounded-exhaustive enumeration of input elements (struct/enum/union bodies, generics, visibility, attribute forms) x every magic-field subset receiver; expectations from syn's parse of the same source",
         "odometer", "96 compiled receivers (all magic-field subsets of four traits + wrapped flavors) x all struct bodies of 0..3/4 fields over 6 field forms, enums of 0..2/3 variants over 8 forms, unions, 6 generics forms, 5 heads: token equality of every magic member, body kind/style/count/order, exact failure reporting, re-print identity",
         "syn's parse of the source is the reference for 'the corresponding part of the input'", "DESIGN.md §4 C16"),
 "C18": ("model_checking", "exhaustive enumeration of supports(..) subsets as compiled receivers x input bodies against a shape-table model; full ShapeSet API table; API vs derived differential",
         "odometer", "every (declared shape-word set, body) pair of the table model is replayed on a compiled receiver: accept/reject and the exact error count (one per non-conforming variant); unions error without crashing; 16 ShapeSets x 4 shapes x 4 carriers; derived verdict == API verdict",
         "quick: word sets of size <= 2 and their complements (134 of 2048), enums of <= 3 variants; thorough: all 2048 sets, enums of <= 4 variants", "DESIGN.md §4 C18"),
 "C17": ("model_checking", "bounded-exhaustive enumeration of unknown names (edit-distance balls around every name) at every position of compiled receivers, built with the suggestions feature on and off; reference candidate lists + strsim arg-max",
         "odometer", "every (receiver, position, unknown name) triple within the edit-distance bound: the suggestion must be a maximal-similarity candidate above 0.8 from the reference candidate list of that position, absent otherwise, attached to no other error, re-parse as known; feature off: none",
         "strsim::jaro_winkler is the trusted metric; bounds: distance 1 (quick) / 2 (thorough), 13 receivers", "DESIGN.md §4 C17"),
 "C20": ("exploration", "bounded-exhaustive program enumeration decided by rustc: every generated receiver of all corpora + a name-clash corpus + generic receivers with must-compile / must-not-bound instantiations + negative capturing-closure crates",
         "rustc", "every receiver generated for the other checks and the clash corpus (50 identifiers x field kinds x configs x six traits, variant names) must compile in a module that imports nothing; generic receivers instantiated so that a missing or a superfluous bound fails the build; capturing closures must be rejected at each callable position",
         "rustc 1.95 is the authority on 'type-checks'; the option space is the generators', not random crates", "DESIGN.md §4 C20"),
 "C06": ("exploration", "bounded-exhaustive enumeration of DeriveInput items (shape x generics x token-sequence attribute bodies at every position, plus every option-selection declaration) through the six derive functions under catch_unwind",
         "odometer", "every derive call returns; its output is exactly one impl of the requested trait xor >= 1 compile_error!",
         "inputs are the items syn accepts as DeriveInput; bound: token sequences <= 2 (quick) / 3 (thorough) over an 11-token alphabet, enums <= 2/3 variants", "DESIGN.md §4 C06"),
 "C10": ("model_checking", "bounded-exhaustive enumeration of option selections (ordered, every attribute split) and body-rule declarations through the six derive functions; rule-set model predicts accept/reject and diagnostic anchors",
         "odometer", "impl emitted iff the rule-set model finds no violated rule; otherwise only diagnostics, one inside the anchor tokens of every violated rule of the first failing layer, none elsewhere",
         "anchors are read from compile_error! token spans; ordered selections <= 3 (quick) / 4 (thorough) of 13 field options, <= 3/4 of 6 variant options, <= 2/3 of 23 container options", "DESIGN.md §4 C10"),
 "C12": ("exploration", "exhaustive differential over (wrapper chain, target, meta item): W<T>::from_meta vs the wrapper semantics applied to T::from_meta on the same item",
         "odometer", "10 wrappers x 14 targets and all 100 two-level compositions x 5 targets x 66 items: same acceptance, same value, same error leaves and spans; Result wrappers never fail outwardly; Override word -> Inherit; from_none per wrapper; SpannedValue range; WithOriginal copy; direct from_list for forwarding wrappers",
         "the inner target's own conversion is the reference", "DESIGN.md §4 C12"),
 "C13": ("exploration", "exhaustive enumeration of (syntax target, grammar fragment, spelling) against syn's own parse of the fragment; bare / in-list / invisible-group / quoted spellings cross-checked",
         "odometer", "45 syntax-valued targets x ~110 fragments (quick) / +~430 second-level compositions (thorough) in up to six spellings: accepted bare values print token-for-token as written, quoted values equal syn's parse of the contents and are accepted exactly when it succeeds, all spellings agree, rejections are spanned; parse_expr helpers differ only on string literals",
         "syn::parse_str::<T> is 'the same grammar'; token comparison ignores the renderer's spacing", "DESIGN.md §4 C13"),
 "C15": ("model_checking", "bounded-exhaustive enumeration of token streams (grammar + all single-token mutations) against an independent segmentation recogniser; exhaustive (hook-subset, item form, hook behaviour) table against the documented routing chain",
         "odometer", "parse_meta_list agrees with the recogniser on accept/reject, item count, order, class and token text and is a print/re-parse fixpoint; for all 128 subsets of overridden hooks every item form reaches exactly the documented hook or the documented default rejection, and hook errors come back spanned with the item unless pre-spanned",
         "a chunk is an item iff syn parses it wholly as Lit or Meta; lists of <= 2 (quick) / 3 (thorough) items over 34 forms", "DESIGN.md §4 C15"),
 "C19": ("exploration", "bounded-exhaustive enumeration of types built as constructor spines with parameters planted at known use / non-use positions x all query sets x both purposes; generic receivers x skip patterns through the six derives",
         "odometer", "the usage analysis returns exactly the planted uses intersected with the queried set, for type parameters and lifetimes, and the union for collections; every emitted impl repeats generics and where-clause and adds the conversion bound to exactly the declared parameters used by parsed fields",
         "use-sets known by construction; spine depth 1 (quick) / 2 (+3 reduced) (thorough)", "DESIGN.md §4 C19"),
}
PENDING = {}
props = [json.loads(l) for l in open(os.path.join(V, "properties.jsonl"))]
checks = []
na = []
for p in props:
    i = p["id"]
    if i in CHECKS:
        lvl, tech, eng, text, note, ref = CHECKS[i]
        checks.append({
            "property_id": i,
            "quick_cmd": f"./check {i} --tier quick",
            "thorough_cmd": f"./check {i} --tier thorough",
            "evidence_file": f"evidence/{i}.json",
            "replay_cmd_template": f"./check {i} --replay {{path}}",
            "engine": eng,
            "level_claimed": {"category": lvl, "text": text, "design_ref": ref},
            "level_note": note,
            "technique": tech,
        })
    else:
        na.append({"property_id": i, "reason": PENDING.get(i, "check not built yet in this round (see DESIGN.md §9 build order); not claimed")})
m = {
 "version": 1,
 "setup_cmd": "cd harness && CARGO_NET_OFFLINE=true cargo build --offline -q -p vcheck && CARGO_NET_OFFLINE=true cargo build --offline -q -p vcheck --profile nodebug && VERIF_DIR=/verif ./target/debug/vcheck setup",
 "hooks": {"guard": "--cfg darling_verif", "enable": "no hooks are needed: every observation point is public API (DESIGN.md §6); checks build /repo as a cargo path dependency of /verif/harness",
           "baseline_off_cmd": "cd /repo && cargo test --workspace --no-fail-fast --offline", "source_commits": [], "add_only": True},
 "engines": [
   {"name": "stateright", "path": "harness/vcheck/src/c04.rs, harness/vcheck/src/c05.rs", "serves_properties": ["C03", "C04", "C05"], "kind_free_text": "explicit-state BFS over operation histories; every transition replayed on the real object"},
   {"name": "odometer", "path": "harness/vcheck/src", "serves_properties": [], "kind_free_text": "bounded-exhaustive enumeration (nested finite iterators, rayon-sharded) of programs x inputs, real code vs reference model"},
 ],
 "checks": checks,
 "not_applicable": na,
 "notes": "All checks run ./check <ID>, which rebuilds the harness against /repo's working tree (cargo path dependency) before exploring. Exit 0 held / 1 VIOLATION / >=2 machinery failure.",
}
json.dump(m, open(os.path.join(V, "MANIFEST.json"), "w"), indent=1)
print("claimed:", [c["property_id"] for c in checks])
