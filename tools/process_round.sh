#!/bin/bash
# tools/process_round.sh <PROP> <suffix>  — confirm /tmp/seed_out/<PROP><suffix>/{1,2,3} and run <PROP>'s quick check against each
P="$1"; SUF="$2"
git -C /tmp/wt/confirm checkout -q --detach main 2>/dev/null
for k in 1 2 3 4; do
  src=/tmp/seed_out/${P}${SUF}/$k
  [ -f "$src/patch.diff" ] || continue
  sid=${P}${SUF}-$k
  /verif/tools/confirm_seed.sh "$src" "$sid" "$P" || continue
  /verif/tools/run_seed.sh "$sid" "$P" | cut -c1-260
done
