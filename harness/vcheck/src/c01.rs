//! C01 / C02 / C03 / C07 on the struct corpus: the same exploration, four oracles.
use crate::corpus::*;
use crate::Args;
use serde_json::json;
use vrt::Report;

pub fn main(prop: &'static str, args: &Args) {
    let spec = struct_corpus(args.tier);
    let pkgs = generate(&spec);
    if let Some(p) = &args.replay {
        let case = crate::load_case(p);
        if case["delegate"] == "C16" {
            let st = std::process::Command::new(std::env::current_exe().unwrap()).args(["C16", "--replay", p]).status().unwrap();
            std::process::exit(st.code().unwrap_or(2));
        }
        if case["engine"] == "builtin" {
            std::process::exit(if crate::c07::replay(&case) { 0 } else { 1 });
        }
        if case["engine"] == "string-hook" {
            let t = crate::c13::string_hook_panics();
            for v in &t.violations {
                println!("replay: {}", v.what);
            }
            std::process::exit(if t.violations.is_empty() { 0 } else { 1 });
        }
        if case["engine"] == "builtin-spans" {
            std::process::exit(if crate::c03b::replay(&case) { 0 } else { 1 });
        }
        if case["engine"] == "algebra" {
            let ok = crate::c04::replay(&case, true, true);
            std::process::exit(if ok { 0 } else { 1 });
        }
        let shard = case["shard"].as_u64().unwrap_or(0) as usize;
        if let Err(e) = build(&pkgs[shard..=shard]) {
            vrt::machinery(&format!("corpus build failed:\n{e}"));
        }
        let st = std::process::Command::new(bin_path(&pkgs[shard])).args(["--prop", prop, "--replay", p]).status().unwrap();
        std::process::exit(st.code().unwrap_or(2));
    }
    let mut rep = Report::new(prop, args.tier, if prop == "C07" { "exploration" } else { "model_checking" });
    if let Err(e) = build(&pkgs) {
        vrt::machinery(&format!("corpus build failed (C20 reports receivers that do not compile):\n{}", e.chars().take(3000).collect::<String>()));
    }
    let t = run_shards(&pkgs, prop, args.tier, &[]);
    let main_programs = t.counters.get("programs").copied().unwrap_or(0) as usize;
    rep.absorb(t);
    if prop == "C03" {
        // algebra half: spans through with_span/at/multiple/flatten/diagnostics
        let depth = args.tier.pick(7, 9);
        let (t, extra) = crate::c04::explore("C03", depth, true, true);
        rep.set("algebra", extra);
        rep.absorb(t);
        rep.absorb(crate::c04::structured("C03", true, true));
        // built-in targets: faulty list members, array elements, map entries and scalar items
        // among siblings, at every position
        let t = crate::c03b::sweep();
        rep.set("builtin_span_cases", json!(t.evaluations));
        rep.absorb(t);
        rep.require_counter("builtin_span_checked");
    }
    if prop == "C01" {
        // the wide receivers: all 216 field-option combinations under container configurations
        let wide = wide_corpus(args.tier);
        let wp = generate(&wide);
        if let Err(e) = build(&wp) {
            vrt::machinery(&format!("corpus build failed (wide):\n{}", e.chars().take(3000).collect::<String>()));
        }
        let t2 = run_shards(&wp, "C01", args.tier, &[]);
        rep.set("wide_receivers", json!(wide.programs.len()));
        rep.require(t2.counters.get("wide_inputs").copied().unwrap_or(0) > 1000, "wide receivers produced too few mistake-free inputs");
        rep.absorb(t2);
    }
    if prop == "C02" {
        // the body layer: fields / variants of the element's body (body corpus of C16); only the
        // error-reporting disagreements belong to C02
        let body = crate::c16::generate_body(args.tier);
        if let Err(e) = build(&body) {
            vrt::machinery(&format!("corpus build failed:\n{}", e.chars().take(3000).collect::<String>()));
        }
        let mut t2 = run_shards(&body, "C02", args.tier, &[]);
        t2.violations.retain(|v| v.key.contains(":: errors [") || v.key.contains(":: accepted (as") || v.key.contains(":: rejected a convertible"));
        t2.violation_count = t2.violations.len() as u64;
        for v in &mut t2.violations {
            v.key = v.key.replacen("C16 ", "C02 ", 1);
            v.case["delegate"] = json!("C16");
        }
        t2.states = t2.evaluations;
        t2.transitions = t2.evaluations;
        t2.traces = t2.evaluations;
        t2.counters.retain(|k, _| k == "receivers" || k == "derive_inputs");
        rep.absorb(t2);
    }
    if prop == "C07" {
        // the other corpora, for panics only: attribute receivers (incl. forwarding-only ones and
        // every forward_attrs form), magic-field / body receivers (unions, empty enums, failing
        // elements) and supports(..) receivers
        let attr = attr_corpus(args.tier);
        let mut extra = generate(&attr);
        extra.extend(generate(&enum_corpus(args.tier)));
        let n_attr = extra.len();
        extra.extend(crate::c16::generate_body(args.tier));
        extra.extend(crate::c18::generate_shape(args.tier));
        if let Err(e) = build(&extra) {
            vrt::machinery(&format!("corpus build failed:\n{}", e.chars().take(3000).collect::<String>()));
        }
        let mut t2 = run_shards(&extra[..n_attr], "C07", args.tier, &[]);
        let t3 = run_shards(&extra[n_attr..], "C07", args.tier, &[]);
        t2 = t2.merge(t3);
        t2.violations.retain(|v| v.key.contains("panicked"));
        t2.violation_count = t2.violations.len() as u64;
        for v in &mut t2.violations {
            for p in ["C08 ", "C16 ", "C18 "] {
                if v.key.starts_with(p) {
                    v.key = v.key.replacen(p, "C07 ", 1);
                }
            }
        }
        t2.states = 0;
        t2.transitions = 0;
        rep.absorb(t2);
        let t = crate::c07::sweep();
        rep.absorb(t);
        // every syntax-valued target's string hook on every text, one after another on one thread
        rep.absorb(crate::c13::string_hook_panics());
        rep.set("builtin_targets", json!(crate::c07::targets().len()));
        rep.set("builtin_menu_items", json!(crate::c07::menu().len()));
        rep.require_counter("builtin_ok");
        rep.require_counter("builtin_err");
        rep.require_counter("hostile_err");
    }
    rep.set("programs", json!(spec.programs.len()));
    rep.set("shards", json!(pkgs.len()));
    rep.rule = format!(
        "{} generated receivers (1-3 fields over 13 field kinds x container configurations, six traits, deep nesting/flatten families) compiled against the working tree; for each, every sequence of attribute items up to the length bound (3 quick / 4 thorough, reduced where the alphabet is large; see counters seq_len_*) over a per-receiver alphabet of valid and invalid items (8-25 symbols) is parsed by the real derived parser and compared with the reference interpreter: value tree (C01), multiset of error leaves with message and location path, len() (C02), each leaf's span inside the offending item and diagnostics at the leaf spans (C03), no panic (C07). states = nodes of the sequence trees; non-trivial = sequences with at least one expected mistake.",
        spec.programs.len()
    );
    rep.assumptions = vec![
        "the reference interpreter is a second reading of the documented semantics; expected message texts come from darling's own constructors".into(),
        "syn/proc-macro2 span-locations give true column ranges".into(),
    ];
    rep.require_counter("expect_ok");
    if prop != "C01" {
    rep.require_counter("expect_err");
    for k in ["leaf_unknown", "leaf_duplicate", "leaf_missing", "leaf_format", "leaf_unknown_value", "leaf_custom", "leaf_too_few", "leaf_too_many"] {
        rep.require_counter(k);
    }
    }
    rep.require(rep.tally.counters.get("generator_unparseable").is_none(), "generator produced unparseable sources");
    rep.require(main_programs == spec.programs.len(), "not every receiver was exercised");
    rep.finish()
}
