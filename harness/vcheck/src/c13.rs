//! C13 — syntax-typed values reproduce the user's tokens; quoted and bare forms agree.
use crate::Args;
use darling::util::{Callable, IdentString, PathList};
use darling::FromMeta;
use quote::ToTokens;
use serde_json::json;
use vrt::{catch, Report, Tally, Violation};

trait PipeSquash {
    fn pipe_squash(self) -> String;
}
impl PipeSquash for String {
    fn pipe_squash(self) -> String {
        squash(self)
    }
}

pub trait S13: FromMeta {
    fn toks(&self) -> String;
    /// direct syn parse of a fragment by this target's own grammar, printed as tokens
    fn direct(frag: &str) -> Option<String>;
    /// does a string literal denote "parse my contents" for this target?
    const QUOTING: bool;
}
/// Token text with the renderer's spacing removed (Display of a TokenStream spaces joint
/// punctuation differently depending on where the tokens came from).
fn squash(s: String) -> String {
    s.chars().filter(|c| !c.is_whitespace()).collect()
}
fn ts(s: &str) -> Option<String> {
    s.parse::<proc_macro2::TokenStream>().ok().map(|t| squash(t.to_string()))
}
macro_rules! syn_target {
    ($($t:ty),* $(,)?) => { $(impl S13 for $t {
        fn toks(&self) -> String { self.to_token_stream().to_string().pipe_squash() }
        fn direct(frag: &str) -> Option<String> { syn::parse_str::<$t>(frag).ok().map(|v| v.to_token_stream().to_string().pipe_squash()) }
        const QUOTING: bool = true;
    })* };
}
syn_target!(
    syn::Path, syn::Ident, syn::Expr, syn::ExprArray, syn::ExprPath, syn::ExprRange, syn::Type, syn::TypeArray, syn::TypeBareFn, syn::TypeImplTrait, syn::TypeInfer,
    syn::TypeMacro, syn::TypeNever, syn::TypeParen, syn::TypePath, syn::TypePtr, syn::TypeReference, syn::TypeSlice, syn::TypeTraitObject, syn::TypeTuple, syn::TypeParam,
    syn::Visibility, syn::WhereClause
);
macro_rules! lit_target {
    ($($t:ty),* $(,)?) => { $(impl S13 for $t {
        fn toks(&self) -> String { self.to_token_stream().to_string().pipe_squash() }
        fn direct(frag: &str) -> Option<String> { syn::parse_str::<$t>(frag).ok().map(|v| v.to_token_stream().to_string().pipe_squash()) }
        const QUOTING: bool = false;
    })* };
}
lit_target!(syn::Lit, syn::LitInt, syn::LitFloat, syn::LitStr, syn::LitByte, syn::LitByteStr, syn::LitChar, syn::LitBool);
impl S13 for IdentString {
    // both sides of the value: the identifier and "the value as a string" (equal, `r#` included)
    fn toks(&self) -> String {
        let (i, s, o) = (self.as_ident().to_string(), self.as_str().to_string(), String::from(self.clone()));
        if i == s && s == o {
            i
        } else {
            format!("ident {i} / as_str {s} / into String {o}")
        }
    }
    fn direct(frag: &str) -> Option<String> {
        syn::parse_str::<syn::Ident>(frag).ok().map(|v| v.to_string())
    }
    const QUOTING: bool = true;
}
impl S13 for Callable {
    fn toks(&self) -> String {
        self.to_token_stream().to_string().pipe_squash()
    }
    fn direct(frag: &str) -> Option<String> {
        match syn::parse_str::<syn::Expr>(frag).ok()? {
            e @ (syn::Expr::Path(_) | syn::Expr::Closure(_)) => Some(e.to_token_stream().to_string().pipe_squash()),
            _ => None,
        }
    }
    const QUOTING: bool = false;
}
impl S13 for syn::Meta {
    fn toks(&self) -> String {
        self.to_token_stream().to_string().pipe_squash()
    }
    fn direct(_frag: &str) -> Option<String> {
        None
    }
    const QUOTING: bool = false;
}
impl S13 for Vec<syn::WherePredicate> {
    fn toks(&self) -> String {
        self.iter().map(|p| p.to_token_stream().to_string().pipe_squash()).collect::<Vec<_>>().join(",")
    }
    fn direct(frag: &str) -> Option<String> {
        let w: syn::WhereClause = syn::parse_str(&format!("where {frag}")).ok()?;
        Some(w.predicates.iter().map(|p| p.to_token_stream().to_string().pipe_squash()).collect::<Vec<_>>().join(","))
    }
    const QUOTING: bool = true;
}
macro_rules! vec_lit {
    ($($t:ty),*) => { $(impl S13 for Vec<$t> {
        fn toks(&self) -> String { self.iter().map(|p| p.to_token_stream().to_string().pipe_squash()).collect::<Vec<_>>().join(",") }
        fn direct(frag: &str) -> Option<String> {
            // the array grammar: `[a, b]`
            let a: syn::ExprArray = syn::parse_str(frag).ok()?;
            let mut out = vec![];
            for e in &a.elems {
                let l: $t = syn::parse2(e.to_token_stream()).ok()?;
                out.push(l.to_token_stream().to_string().pipe_squash());
            }
            Some(out.join(","))
        }
        const QUOTING: bool = true;
    })* };
}
vec_lit!(syn::LitInt, syn::LitStr, syn::LitBool, syn::LitChar, syn::LitFloat);
macro_rules! vec_num {
    ($($t:ty),*) => { $(impl S13 for Vec<$t> {
        fn toks(&self) -> String { self.iter().map(|p| p.to_string()).collect::<Vec<_>>().join(",") }
        fn direct(frag: &str) -> Option<String> {
            let a: syn::ExprArray = syn::parse_str(frag).ok()?;
            let mut out = vec![];
            for e in &a.elems {
                let l: syn::LitInt = syn::parse2(e.to_token_stream()).ok()?;
                out.push(l.base10_parse::<$t>().ok()?.to_string());
            }
            Some(out.join(","))
        }
        const QUOTING: bool = true;
    })* };
}
vec_num!(u8, u16, u32, u64, usize);
impl S13 for PathList {
    fn toks(&self) -> String {
        self.iter().map(|p| p.to_token_stream().to_string().pipe_squash()).collect::<Vec<_>>().join(",")
    }
    fn direct(_frag: &str) -> Option<String> {
        None
    }
    const QUOTING: bool = false;
}
impl S13 for syn::punctuated::Punctuated<syn::Path, syn::Token![,]> {
    fn toks(&self) -> String {
        self.iter().map(|p| p.to_token_stream().to_string().pipe_squash()).collect::<Vec<_>>().join(",")
    }
    fn direct(frag: &str) -> Option<String> {
        use syn::parse::Parser;
        let p = syn::punctuated::Punctuated::<syn::Path, syn::Token![,]>::parse_terminated.parse_str(frag).ok()?;
        Some(p.iter().map(|p| p.to_token_stream().to_string().pipe_squash()).collect::<Vec<_>>().join(","))
    }
    const QUOTING: bool = true;
}

#[derive(Debug, Clone, PartialEq)]
pub enum R {
    Ok(String),
    Err { spanned_inside: bool, msg: String },
    Panic(String),
}

pub struct Target {
    pub name: &'static str,
    pub quoting: bool,
    pub conv: fn(&syn::Meta) -> R,
    pub direct: fn(&str) -> Option<String>,
    /// the string hook called directly, and the literal hook on the same text as a string literal
    pub hooks: fn(&str) -> (R, R),
}

fn hooks<T: S13>(text: &str) -> (R, R) {
    let one = |r: Result<darling::Result<T>, String>| match r {
        Ok(Ok(v)) => R::Ok(v.toks()),
        Ok(Err(e)) => R::Err { spanned_inside: e.has_span(), msg: String::new() },
        Err(p) => R::Panic(p),
    };
    let lit = syn::Lit::Str(syn::LitStr::new(text, proc_macro2::Span::call_site()));
    let a = one(catch(std::panic::AssertUnwindSafe(|| T::from_string(text))));
    let b = one(catch(std::panic::AssertUnwindSafe(|| T::from_value(&lit))));
    (a, b)
}

fn conv<T: S13>(m: &syn::Meta) -> R {
    use syn::spanned::Spanned;
    match catch(std::panic::AssertUnwindSafe(|| T::from_meta(m))) {
        Ok(Ok(v)) => R::Ok(v.toks()),
        Ok(Err(e)) => {
            let item = vrt::spans::cols(m.span());
            let programmatic = matches!(m, syn::Meta::NameValue(nv) if matches!(nv.value, syn::Expr::Group(_)));
            let item = if programmatic { None } else { item };
            let inside = match (e.explicit_span(), item) {
                (Some(s), Some(i)) => vrt::spans::cols(s).map(|c| vrt::spans::within(c, i)).unwrap_or(false),
                // programmatically built metas (groups) have no source columns
                (Some(_), None) => true,
                (None, _) => false,
            };
            R::Err { spanned_inside: inside && e.flatten().into_iter().all(|l| l.has_span()), msg: "".into() }
        }
        Err(p) => R::Panic(p),
    }
}

macro_rules! tg {
    ($v:ident; $($t:ty),* $(,)?) => { $( $v.push(Target { name: stringify!($t), quoting: <$t as S13>::QUOTING, conv: conv::<$t>, direct: <$t as S13>::direct, hooks: hooks::<$t> }); )* };
}

pub fn targets() -> Vec<Target> {
    let mut v = vec![];
    tg!(v; syn::Path, syn::Ident, IdentString, syn::Expr, syn::ExprArray, syn::ExprPath, syn::ExprRange, syn::Type, syn::TypeArray, syn::TypeBareFn, syn::TypeImplTrait,
        syn::TypeInfer, syn::TypeMacro, syn::TypeNever, syn::TypeParen, syn::TypePath, syn::TypePtr, syn::TypeReference, syn::TypeSlice, syn::TypeTraitObject,
        syn::TypeTuple, syn::TypeParam, syn::Visibility, syn::WhereClause, Vec<syn::WherePredicate>,
        syn::Lit, syn::LitInt, syn::LitFloat, syn::LitStr, syn::LitByte, syn::LitByteStr, syn::LitChar, syn::LitBool,
        Vec<syn::LitInt>, Vec<syn::LitStr>, Vec<syn::LitBool>, Vec<syn::LitChar>, Vec<syn::LitFloat>, Vec<u8>, Vec<u16>, Vec<u32>, Vec<u64>, Vec<usize>,
        Callable, PathList, syn::punctuated::Punctuated<syn::Path, syn::Token![,]>);
    v
}

pub fn fragments(depth2: bool) -> Vec<String> {
    let mut v: Vec<String> = [
        // paths and identifiers
        "a", "a::b", "::a::b", "a::b::<c>", "a::<b, c>::d", "crate::x", "self::y", "super::z", "r#type", "r#fn", "<A as B>::c", "<A>::c", "Self",
        // expressions
        "1 + 2", "-x", "!x", "f(1, 2)", "x.m(1)", "x.f", "x[0]", "|a, b| a + b", "|| 1", "{ 1 }", "[1, 2]", "[]", "[a, 1]", "[-1, 2]", "[1u8, 0x2]", "(1, 2)", "0..5", "..", "..=3", "1..",
        "(x)", "&x", "x as u8", "m!(x)", "if a { 1 } else { 2 }", "a = b", "a && b || c", "x?", "a::b(c)",
        // literals
        "\"hello\"", "\"a + b\"", "\"a::b\"", "\"\"", "\"\\\"deep\\\"\"", "r\"raw\"", "true", "5", "0x10", "5u8", "1_000", "-3", "-0x10", "-5i8", "-1_000", "1.5", "-2.5f32", "'c'", "b'c'", "b\"x\"",
        // numeric arrays at and beyond each element width
        "[1, 2, 256]", "[255, 0]", "[65535]", "[65536]", "[4294967295]", "[4294967296]", "[18446744073709551615]", "[18446744073709551616]", "[0, 1, 2, 3, 4, 5, 6, 7, 8, 9, 10, 11, 12, 13, 14, 15, 16, 17]",
        // types
        "u8", "Vec<u8>", "&'a str", "&mut T", "[u8; 4]", "fn(u8) -> u8", "(u8, u8)", "()", "!", "_", "*const u8", "[u8]", "dyn Tr + 'a", "impl Tr", "(u8)", "T: Clone", "T",
        // visibility / where
        "pub", "pub(crate)", "pub(in a::b)", "where T: X", "where T: X, U: Y", "T: X, U: Y", "T: X + 'a",
        // lists
        "a, b::c", "1, 2", "",
    ]
    .iter()
    .map(|s| s.to_string())
    .collect();
    if depth2 {
        let base = ["a::b", "f(1, 2)", "[1, 2]", "0..5", "|a| a", "-3", "(x)", "m!(x)", "x.f", "5"];
        for a in base {
            for b in base {
                v.push(format!("{a} + {b}"));
                v.push(format!("g({a}, {b})"));
                v.push(format!("[{a}, {b}]"));
                v.push(format!("{a}..{b}"));
            }
            v.push(format!("Vec<{a}>"));
            v.push(format!("&'a [{a}; 2]"));
            v.push(format!("fn({a}) -> ({a}, u8)"));
        }
    }
    v
}

fn group_meta(expr: syn::Expr) -> syn::Meta {
    let g = syn::Expr::Group(syn::ExprGroup { attrs: vec![], group_token: Default::default(), expr: Box::new(expr) });
    syn::Meta::NameValue(syn::MetaNameValue { path: syn::parse_str("v").unwrap(), eq_token: Default::default(), value: g })
}

fn meta_lone(text: &str) -> Option<syn::Meta> {
    let di: syn::DeriveInput = syn::parse_str(&format!("#[{text}] struct S;")).ok()?;
    Some(di.attrs[0].meta.clone())
}
fn meta_in_list(text: &str) -> Option<syn::Meta> {
    let di: syn::DeriveInput = syn::parse_str(&format!("#[w({text}, z)] struct S;")).ok()?;
    let list = di.attrs[0].meta.require_list().ok()?;
    match darling::ast::NestedMeta::parse_meta_list(list.tokens.clone()).ok()?.into_iter().next()? {
        darling::ast::NestedMeta::Meta(m) => Some(m),
        _ => None,
    }
}

fn rust_str(s: &str) -> String {
    format!("\"{}\"", s.replace('\\', "\\\\").replace('"', "\\\""))
}

pub fn check(tg: &Target, frag: &str, t: &mut Tally) {
    let bad = |msg: String, t: &mut Tally| {
        t.violate(Violation { key: format!("C13 target={} fragment=`{frag}` :: {msg}", tg.name), what: format!("{} <- `{frag}`: {msg}", tg.name), case: json!({"target": tg.name, "fragment": frag}), detail: json!({}) })
    };
    let frag_tokens = ts(frag);
    let direct = (tg.direct)(frag);
    // a bare string literal is the quoted spelling of its contents (covered from the contents'
    // side); as a fragment it is only used quoted once more: `v = "\"hello\""`
    let is_string_fragment = frag.starts_with('"') || frag.starts_with("r\"");
    // bare spelling, alone and inside a list, and inside an invisible group
    let mut bare_results: Vec<(&str, R)> = vec![];
    if !frag.is_empty() && !is_string_fragment && syn::parse_str::<syn::Expr>(frag).is_ok() {
        if let Some(m) = meta_lone(&format!("v = {frag}")) {
            bare_results.push(("bare", (tg.conv)(&m)));
        }
        if let Some(m) = meta_in_list(&format!("v = {frag}")) {
            bare_results.push(("bare inside a list", (tg.conv)(&m)));
        }
        if let Ok(e) = syn::parse_str::<syn::Expr>(frag) {
            bare_results.push(("inside an invisible group", (tg.conv)(&group_meta(e.clone()))));
            let inner = syn::Expr::Group(syn::ExprGroup { attrs: vec![], group_token: Default::default(), expr: Box::new(e) });
            bare_results.push(("inside two invisible groups", (tg.conv)(&group_meta(inner))));
        }
    }
    // targets whose bare grammar is a syntactic class of expressions accept every member of it
    let must_accept = match (squash(tg.name.to_string()).as_str(), syn::parse_str::<syn::Expr>(frag)) {
        (_, Err(_)) => false,
        ("syn::Expr", Ok(_)) => !is_string_fragment,
        ("Callable", Ok(e)) => matches!(e, syn::Expr::Path(_) | syn::Expr::Closure(_)),
        ("syn::ExprPath", Ok(e)) => matches!(e, syn::Expr::Path(_)),
        ("syn::ExprArray", Ok(e)) => matches!(e, syn::Expr::Array(_)),
        ("syn::ExprRange", Ok(e)) => matches!(e, syn::Expr::Range(_)),
        ("syn::Path", Ok(e)) => matches!(e, syn::Expr::Path(p) if p.qself.is_none()),
        ("syn::Ident", Ok(e)) => matches!(e, syn::Expr::Path(p) if p.qself.is_none() && p.path.get_ident().is_some()),
        _ => false,
    };
    for (how, r) in &bare_results {
        if must_accept && matches!(r, R::Err { .. }) {
            bad(format!("{how}: rejected ({r:?}) although the value belongs to the target's own grammar"), t);
        }
    }
    for (how, r) in &bare_results {
        t.evaluations += 1;
        match r {
            R::Panic(p) => bad(format!("{how}: panicked: {p}"), t),
            R::Ok(got) => {
                t.hit("bare_accepted");
                // prints token-for-token like what the user wrote (for numeric arrays: the values)
                let want = if tg.name.starts_with("Vec <") || tg.name.starts_with("Vec<") { direct.clone() } else { frag_tokens.clone() };
                if Some(got) != want.as_ref() {
                    bad(format!("{how}: value prints as `{got}`, the user wrote `{}`", want.unwrap_or_default()), t);
                }
            }
            R::Err { spanned_inside, .. } => {
                t.hit("bare_rejected");
                t.nontrivial += 1;
                if !spanned_inside {
                    bad(format!("{how}: rejected without a span inside the item"), t);
                }
            }
        }
    }
    // every bare spelling gives the same outcome (groups are transparent, position is irrelevant)
    if let Some((_, first)) = bare_results.first() {
        for (how, r) in &bare_results[1..] {
            let same = match (first, r) {
                (R::Ok(a), R::Ok(b)) => a == b,
                (R::Err { .. }, R::Err { .. }) => true,
                _ => false,
            };
            if !same {
                bad(format!("`v = {frag}` gives {first:?} but {how} it gives {r:?}"), t);
            }
        }
    }
    // a callable or a path list is never written quoted: every string is refused, with a span
    if matches!(squash(tg.name.to_string()).as_str(), "Callable" | "PathList") {
        for (how, m) in [("quoted", meta_lone(&format!("v = {}", rust_str(frag)))), ("quoted inside a list", meta_in_list(&format!("v = {}", rust_str(frag))))] {
            let Some(m) = m else { continue };
            t.evaluations += 1;
            t.hit("unquotable_checked");
            match (tg.conv)(&m) {
                R::Err { spanned_inside: true, .. } => {}
                other => bad(format!("{how}: a string literal gives {other:?}; this target takes no string, the refusal carries a span inside the item"), t),
            }
        }
    }
    // quoted spelling
    if tg.quoting {
        let mut quoted: Vec<(&str, R)> = vec![];
        if let Some(m) = meta_lone(&format!("v = {}", rust_str(frag))) {
            quoted.push(("quoted", (tg.conv)(&m)));
        }
        if let Some(m) = meta_in_list(&format!("v = {}", rust_str(frag))) {
            quoted.push(("quoted inside a list", (tg.conv)(&m)));
        }
        if let Ok(e) = syn::parse_str::<syn::Expr>(&rust_str(frag)) {
            quoted.push(("quoted inside an invisible group", (tg.conv)(&group_meta(e.clone()))));
            let inner = syn::Expr::Group(syn::ExprGroup { attrs: vec![], group_token: Default::default(), expr: Box::new(e) });
            quoted.push(("quoted inside two invisible groups", (tg.conv)(&group_meta(inner))));
        }
        for (how, r) in &quoted {
            t.evaluations += 1;
            match (r, &direct) {
                (R::Panic(p), _) => bad(format!("{how}: panicked: {p}"), t),
                (R::Ok(got), Some(want)) => {
                    t.hit("quoted_accepted");
                    if got != want {
                        bad(format!("{how}: value prints as `{got}`, the string's contents parse to `{want}`"), t);
                    }
                }
                (R::Ok(got), None) => bad(format!("{how}: accepted as `{got}` although the contents do not parse by the target's grammar"), t),
                (R::Err { .. }, Some(want)) => bad(format!("{how}: rejected although the contents parse to `{want}`"), t),
                (R::Err { spanned_inside, .. }, None) => {
                    t.hit("quoted_rejected");
                    t.nontrivial += 1;
                    if !spanned_inside {
                        bad(format!("{how}: rejected without a span inside the item"), t);
                    }
                }
            }
        }
        // where both spellings are accepted they agree
        if let (Some((_, R::Ok(b))), Some((_, R::Ok(q)))) = (bare_results.first(), quoted.first()) {
            t.hit("both_accepted");
            if b != q {
                bad(format!("bare gives `{b}`, quoted gives `{q}`"), t);
            }
        }
    }
}

/// The two expression helpers differ only on string literals.
fn helpers(frags: &[String], t: &mut Tally) {
    use darling::util::parse_expr::{parse_str_literal, preserve_str_literal};
    for f in frags {
        let Ok(e) = syn::parse_str::<syn::Expr>(f) else { continue };
        let is_string = matches!(e, syn::Expr::Lit(syn::ExprLit { lit: syn::Lit::Str(_), .. }));
        let mut metas = vec![];
        if !is_string {
            metas.extend(meta_lone(&format!("v = {f}")));
            metas.extend(meta_in_list(&format!("v = {f}")));
            metas.push(group_meta(e));
        }
        // a macro-forwarded string literal is still a string literal: the preserving helper keeps it
        {
            let lit: syn::Expr = syn::parse_str(&rust_str(f)).unwrap();
            let m = group_meta(lit);
            t.evaluations += 1;
            let a = catch(std::panic::AssertUnwindSafe(|| preserve_str_literal(&m).map(|e| e.to_token_stream().to_string().pipe_squash()).map_err(|e| e.to_string())));
            if a.as_ref().ok().and_then(|r| r.as_ref().ok()) != ts(&rust_str(f)).as_ref() {
                t.violate(Violation {
                    key: format!("C13 helpers grouped string fragment=`{f}` :: preserve={a:?}"),
                    what: format!("`v = {}` forwarded in an invisible group: preserve_str_literal gives {a:?}, expected the string literal kept", rust_str(f)),
                    case: json!({"fragment": f}),
                    detail: json!({}),
                });
            }
        }
        for m in metas {
            t.evaluations += 1;
            t.hit("helpers_checked");
            let a = catch(std::panic::AssertUnwindSafe(|| preserve_str_literal(&m).map(|e| e.to_token_stream().to_string().pipe_squash()).map_err(|e| e.to_string())));
            let b = catch(std::panic::AssertUnwindSafe(|| parse_str_literal(&m).map(|e| e.to_token_stream().to_string().pipe_squash()).map_err(|e| e.to_string())));
            if a != b || a.is_err() {
                t.violate(Violation {
                    key: format!("C13 helpers fragment=`{f}` :: preserve={a:?} parse={b:?}"),
                    what: format!("`v = {f}`: preserve_str_literal gives {a:?}, parse_str_literal gives {b:?}; they may differ only for a string literal"),
                    case: json!({"fragment": f}),
                    detail: json!({}),
                });
            }
        }
        // string literal: one keeps it, the other parses its contents
        if let Some(m) = meta_lone(&format!("v = {}", rust_str(f))) {
            t.evaluations += 1;
            let a = preserve_str_literal(&m).map(|e| e.to_token_stream().to_string().pipe_squash()).map_err(|e| e.to_string());
            let b = parse_str_literal(&m).map(|e| e.to_token_stream().to_string().pipe_squash()).map_err(|e| e.to_string());
            let want_b = syn::parse_str::<syn::Expr>(f).unwrap().to_token_stream().to_string().pipe_squash();
            if a.as_ref().ok() != ts(&rust_str(f)).as_ref() || b.as_ref().ok() != Some(&want_b) {
                t.violate(Violation { key: format!("C13 helpers quoted fragment=`{f}` :: preserve={a:?} parse={b:?}"), what: format!("`v = {}`: preserve gives {a:?}, parse gives {b:?}", rust_str(f)), case: json!({"fragment": f}), detail: json!({}) });
            }
        }
    }
}

/// Quoted contents that are not an expression: one helper keeps the literal, the other rejects.
fn helpers_unparseable(t: &mut Tally) {
    use darling::util::parse_expr::{parse_str_literal, preserve_str_literal};
    for contents in ["a +", "", "hello world", "Vec::new(", "1 + , 2", ")", "let x ="] {
        for m in [meta_lone(&format!("v = {}", rust_str(contents))), meta_in_list(&format!("v = {}", rust_str(contents)))].into_iter().flatten() {
            t.evaluations += 1;
            t.hit("helpers_checked");
            let a = preserve_str_literal(&m).map(|e| squash(e.to_token_stream().to_string())).map_err(|e| e.to_string());
            let b = parse_str_literal(&m);
            let c = <syn::Expr as FromMeta>::from_meta(&m);
            let ok = a.as_ref().ok() == ts(&rust_str(contents)).as_ref() && b.as_ref().err().map(|e| e.has_span()).unwrap_or(false) && c.is_err();
            if !ok {
                t.violate(Violation {
                    key: format!("C13 helpers unparseable contents=`{contents}` :: preserve={a:?} parse={:?} expr={:?}", b.as_ref().map(|e| e.to_token_stream().to_string()).map_err(|e| e.to_string()), c.as_ref().map(|e| e.to_token_stream().to_string()).map_err(|e| e.to_string())),
                    what: format!("`v = {}`: the contents are not an expression: preserve_str_literal must keep the literal (got {a:?}), parse_str_literal and the Expr target must reject with a span (got {:?} / {:?})", rust_str(contents), b.map(|e| e.to_token_stream().to_string()).map_err(|e| e.to_string()), c.map(|e| e.to_token_stream().to_string()).map_err(|e| e.to_string())),
                    case: json!({"fragment": contents}),
                    detail: json!({}),
                });
            }
        }
    }
}

/// The helpers take name-value items only: a word or a list is refused with a span inside the
/// item, alone or as a list member, exactly as the Expr target refuses it.
fn helpers_other_forms(t: &mut Tally) {
    use darling::util::parse_expr::{parse_str_literal, preserve_str_literal};
    use syn::spanned::Spanned;
    for src in ["v", "v()", "v(a)", "v(a = 1, b)", "v(\"s\")", "a::v", "v(1 + 2)"] {
        for m in [meta_lone(src), meta_in_list(src)].into_iter().flatten() {
            let item = vrt::spans::cols(m.span());
            for (name, r) in [("preserve_str_literal", preserve_str_literal(&m)), ("parse_str_literal", parse_str_literal(&m)), ("syn::Expr", <syn::Expr as FromMeta>::from_meta(&m))] {
                t.evaluations += 1;
                t.nontrivial += 1;
                t.hit("helpers_other_forms");
                let complaint = match r {
                    Ok(e) => Some(format!("accepted as `{}`", e.to_token_stream())),
                    Err(e) => match (e.explicit_span().and_then(vrt::spans::cols), item) {
                        (None, _) => Some(format!("refused without a span (`{e}`)")),
                        (Some(s), Some(i)) if !vrt::spans::within(s, i) => Some(format!("refused with span {s:?}, the item is at {i:?}")),
                        _ => None,
                    },
                };
                if let Some(c) = complaint {
                    t.violate(Violation { key: format!("C13 helper {name} `{src}` :: {c}"), what: format!("{name} <- `{src}` (not a name-value item): {c}"), case: json!({"fragment": src}), detail: json!({}) });
                }
            }
        }
    }
    vrt::spans::reset();
}

/// The string hook of every target on every text, in both loop orders (the same text handed to
/// one target after another, and one target handed one text after another): what a conversion
/// answers does not depend on what was converted before, it never panics, and a string hook that accepts agrees with the literal hook.
fn string_hook_sweep(tgs: &[Target], frags: &[String], t: &mut Tally) {
    let mut first: std::collections::HashMap<(usize, usize), R> = std::collections::HashMap::new();
    for pass in 0..2 {
        let order: Vec<(usize, usize)> = if pass == 0 {
            (0..frags.len()).flat_map(|f| (0..tgs.len()).map(move |g| (g, f))).collect()
        } else {
            (0..tgs.len()).flat_map(|g| (0..frags.len()).rev().map(move |f| (g, f))).collect()
        };
        for (g, f) in order {
            let (tg, text) = (&tgs[g], &frags[f]);
            t.evaluations += 1;
            t.hit("string_hook_checked");
            let (a, b) = (tg.hooks)(text);
            let mut bad = |msg: String, t: &mut Tally| t.violate(Violation { key: format!("C13 string-hook {} `{text}` :: {msg}", tg.name), what: format!("{}::from_string(`{text}`): {msg}", tg.name), case: json!({"engine": "string-hook"}), detail: json!({}) });
            if let R::Panic(p) = &a {
                bad(format!("panicked: {p}"), t);
            }
            if let R::Panic(p) = &b {
                bad(format!("from_value on the same text panicked: {p}"), t);
            }
            let same = |x: &R, y: &R| matches!((x, y), (R::Ok(p), R::Ok(q)) if p == q) || matches!((x, y), (R::Err { .. }, R::Err { .. }));
            // not every target has a string hook of its own; one that accepts agrees with the
            // literal hook on the value
            if tg.quoting && matches!(a, R::Ok(_)) && !matches!(b, R::Panic(_)) && !same(&a, &b) {
                bad(format!("the string hook gives {a:?}, the same text as a string literal gives {b:?}"), t);
            }
            match first.get(&(g, f)) {
                None => {
                    first.insert((g, f), a);
                }
                Some(prev) if !same(prev, &a) => bad(format!("answered {prev:?} the first time and {a:?} later"), t),
                _ => {}
            }
        }
    }
    vrt::spans::reset();
}

/// The panics of the string-hook sweep, for C07 (conversions never panic, whatever was converted
/// before on the same thread).
pub fn string_hook_panics() -> Tally {
    let mut t = Tally::default();
    string_hook_sweep(&targets(), &fragments(false), &mut t);
    t.violations.retain(|v| v.what.contains("panicked"));
    for v in &mut t.violations {
        v.key = v.key.replacen("C13 ", "C07 ", 1);
        v.case = json!({"engine": "string-hook"});
    }
    t
}

/// List-form targets: PathList, Vec<Lit*>, Meta.
fn list_forms(t: &mut Tally) {
    // literal lists: members are kept as written, negative numbers included, in every position
    fn lits<T: ToTokens>(name: &str, src: &str, want: &[&str], t: &mut Tally)
    where
        Vec<T>: FromMeta,
    {
        let m = meta_lone(src).unwrap();
        t.evaluations += 1;
        t.hit("list_forms_checked");
        match catch(std::panic::AssertUnwindSafe(|| <Vec<T>>::from_meta(&m))) {
            Ok(Ok(v)) => {
                let got: Vec<String> = v.iter().map(|x| squash(x.to_token_stream().to_string())).collect();
                if got != want {
                    t.violate(Violation { key: format!("C13 Vec<{name}> `{src}` :: {got:?}"), what: format!("Vec<{name}> <- `{src}`: {got:?}, expected {want:?}"), case: json!({}), detail: json!({}) });
                }
            }
            Ok(Err(e)) => t.violate(Violation { key: format!("C13 Vec<{name}> `{src}` rejected"), what: format!("Vec<{name}> <- `{src}` rejected: {e}"), case: json!({}), detail: json!({}) }),
            Err(p) => t.violate(Violation { key: format!("C13 Vec<{name}> `{src}` panicked"), what: format!("Vec<{name}> <- `{src}` panicked: {p}"), case: json!({}), detail: json!({}) }),
        }
    }
    lits::<syn::LitInt>("LitInt", "v(-1, 2)", &["-1", "2"], t);
    lits::<syn::LitInt>("LitInt", "v(1, -0x2, -3u8)", &["1", "-0x2", "-3u8"], t);
    lits::<syn::LitInt>("LitInt", "v(-1)", &["-1"], t);
    lits::<syn::LitInt>("LitInt", "v(-1,)", &["-1"], t);
    lits::<syn::LitFloat>("LitFloat", "v(-1.5, 2.0, -3e2)", &["-1.5", "2.0", "-3e2"], t);
    lits::<syn::LitFloat>("LitFloat", "v(1.5)", &["1.5"], t);
    lits::<syn::LitStr>("LitStr", "v(\"a\", \"-1\")", &["\"a\"", "\"-1\""], t);
    lits::<syn::LitBool>("LitBool", "v(true, false,)", &["true", "false"], t);
    let cases: Vec<(&str, Vec<&str>)> = vec![("v(a, b::c, ::d)", vec!["a", "b :: c", ":: d"]), ("v()", vec![]), ("v(a)", vec!["a"]), ("v(::a::b, r#type::c, crate::d, self)", vec![":: a :: b", "r#type :: c", "crate :: d", "self"]),
        // a list is a list: repeated entries and spellings that differ only in the leading `::` stay
        ("v(a, b, a)", vec!["a", "b", "a"]), ("v(a::b, ::a::b, a::b)", vec!["a :: b", ":: a :: b", "a :: b"]), ("v(Debug, Clone, Debug,)", vec!["Debug", "Clone", "Debug"])];
    for (src, want) in cases {
        let m = meta_lone(src).unwrap();
        t.evaluations += 1;
        t.hit("list_forms_checked");
        match PathList::from_meta(&m) {
            Ok(p) => {
                let got: Vec<String> = p.iter().map(|x| x.to_token_stream().to_string().pipe_squash()).collect();
                let want: Vec<String> = want.iter().map(|w| squash(w.to_string())).collect();
                if got != want {
                    t.violate(Violation { key: format!("C13 PathList `{src}` :: {got:?}"), what: format!("PathList <- `{src}`: {got:?}, expected {want:?}"), case: json!({}), detail: json!({}) });
                }
                // the string view: the segments' identifiers joined by `::` (documented form)
                let strs = p.to_strings();
                let want_strs: Vec<String> = p.iter().map(|x| x.segments.iter().map(|s| s.ident.to_string()).collect::<Vec<_>>().join("::")).collect();
                let direct: Vec<String> = p.iter().map(darling::util::path_to_string).collect();
                if strs != want_strs || direct != want_strs {
                    t.violate(Violation { key: format!("C13 PathList `{src}` strings :: {strs:?}"), what: format!("PathList <- `{src}`: to_strings() = {strs:?}, path_to_string = {direct:?}, expected {want_strs:?}"), case: json!({}), detail: json!({}) });
                }
            }
            Err(e) => t.violate(Violation { key: format!("C13 PathList `{src}` rejected"), what: format!("PathList <- `{src}` rejected: {e}"), case: json!({}), detail: json!({}) }),
        }
    }
    for src in ["v(a = 1)", "v(\"s\")", "v(a(b))"] {
        let m = meta_lone(src).unwrap();
        t.evaluations += 1;
        if let Ok(p) = PathList::from_meta(&m) {
            t.violate(Violation { key: format!("C13 PathList `{src}` accepted"), what: format!("PathList <- `{src}` accepted as {:?}", p.to_strings()), case: json!({}), detail: json!({}) });
        }
    }
    let m = meta_lone("v(1, 0x2, 3u8)").unwrap();
    t.evaluations += 1;
    match <Vec<syn::LitInt>>::from_meta(&m) {
        Ok(v) => {
            let got: Vec<String> = v.iter().map(|x| x.to_string()).collect();
            if got != ["1", "0x2", "3u8"] {
                t.violate(Violation { key: "C13 Vec<LitInt> list".into(), what: format!("Vec<LitInt> <- `v(1, 0x2, 3u8)`: {got:?}"), case: json!({}), detail: json!({}) });
            }
        }
        Err(e) => t.violate(Violation { key: "C13 Vec<LitInt> list rejected".into(), what: format!("Vec<LitInt> <- `v(1, 0x2, 3u8)` rejected: {e}"), case: json!({}), detail: json!({}) }),
    }
    for src in ["v", "v = 5", "v(a, b = 1)", "v = a::b", "v(x(y))", "v[a, b]", "v{a}", "v[]", "v{x(y), z[w]}", "v(x[y])", "a::v[1 + 2]", "v(,)"] {
        let m = meta_lone(src).unwrap();
        t.evaluations += 1;
        match syn::Meta::from_meta(&m) {
            Ok(x) if x.to_token_stream().to_string().pipe_squash() == m.to_token_stream().to_string().pipe_squash() => {}
            other => t.violate(Violation { key: format!("C13 Meta `{src}`"), what: format!("Meta <- `{src}`: {:?}", other.map(|x| x.to_token_stream().to_string().pipe_squash()).map_err(|e| e.to_string())), case: json!({}), detail: json!({}) }),
        }
    }
}

pub fn main(args: &Args) {
    if let Some(p) = &args.replay {
        let c = crate::load_case(p);
        let tgs = targets();
        let mut t = Tally::default();
        if c["engine"] == "string-hook" {
            string_hook_sweep(&tgs, &fragments(false), &mut t);
        } else if let (Some(tn), Some(f)) = (c["target"].as_str(), c["fragment"].as_str()) {
            let tg = tgs.iter().find(|t| t.name == tn).unwrap();
            check(tg, f, &mut t);
        } else if let Some(f) = c["fragment"].as_str() {
            helpers(&[f.to_string()], &mut t);
        }
        for v in &t.violations {
            println!("replay: {}", v.what);
        }
        println!("replay: {} violation(s)", t.violations.len());
        std::process::exit(if t.violations.is_empty() { 0 } else { 1 });
    }
    let mut rep = Report::new("C13", args.tier, "exploration");
    let tgs = targets();
    let frags = fragments(args.tier == vrt::Tier::Thorough);
    let mut t = Tally::default();
    for tg in &tgs {
        for f in &frags {
            check(tg, f, &mut t);
        }
        vrt::spans::reset();
    }
    helpers(&frags, &mut t);
    helpers_unparseable(&mut t);
    helpers_other_forms(&mut t);
    string_hook_sweep(&tgs, &frags, &mut t);
    list_forms(&mut t);
    rep.absorb(t);
    rep.set("targets", json!(tgs.len()));
    rep.set("fragments", json!(frags.len()));
    rep.rule = format!(
        "{} syntax-valued targets (Path, Ident, IdentString, Expr and its array/path/range forms, Type and 14 Type* forms, TypeParam, Visibility, WhereClause, Vec<WherePredicate>, Lit and the 7 literal kinds, Vec of literals and of unsigned numbers, Callable, Meta, PathList, Punctuated) x {} fragments (paths with leading ::, generic args, qualified self, raw identifiers, keywords; ~30 expression forms; every literal kind incl. negative / radix / suffixed numbers; types; visibility; where-predicates; lists{}) each as bare value alone and as a non-final list member, inside an invisible group, and quoted (alone, in a list, in a group). Oracle: an accepted bare value prints token-for-token as written; an accepted quoted value equals syn's parse of the contents by the same grammar, and is accepted exactly when that parse succeeds; all bare spellings agree; bare == quoted where both accepted; rejections carry a span inside the item; the two parse_expr helpers agree except on string literals; IdentString's identifier, `as_str()` and `String` views agree; PathList::to_strings / path_to_string = segments joined by `::`. distinct_nontrivial = rejected (target, fragment, spelling) triples.",
        tgs.len(),
        frags.len(),
        if args.tier == vrt::Tier::Thorough { "; second-level compositions" } else { "" }
    );
    rep.assumptions = vec!["syn::parse_str::<T> is 'the same grammar' for the quoted spelling".into()];
    rep.tally.samples.push(json!({"target": "syn::Path", "fragment": "a::<b, c>::d", "spellings": ["v = a::<b, c>::d", "v = \"a::<b, c>::d\"", "#[w(v = a::<b, c>::d, z)]", "v = ⟦a::<b, c>::d⟧"]}));
    rep.require_counter("bare_accepted");
    rep.require_counter("bare_rejected");
    rep.require_counter("quoted_accepted");
    rep.require_counter("quoted_rejected");
    rep.require_counter("both_accepted");
    rep.require_counter("helpers_checked");
    rep.finish()
}
