//! C03, built-in targets: a faulty element of a structured value (a list member, an array
//! element, a map entry) or a faulty scalar item among siblings is reported with a span that lies
//! inside that element / item, wherever it stands. Inputs are written with `⟦ ⟧` around the part
//! at fault; the markers are removed before parsing and give the expected column range.
use darling::util::{Callable, Flag, IdentString, Override, PathList, SpannedValue, WithOriginal};
use darling::FromMeta;
use serde_json::json;
use std::collections::{BTreeMap, HashMap};
use vrt::{catch, Tally, Violation};

type Cols = (usize, usize);

/// Removes the markers; returns the text and the marked column ranges (in chars).
fn unmark(src: &str) -> (String, Vec<Cols>) {
    let mut out = String::new();
    let mut regions = vec![];
    let mut open: Option<usize> = None;
    for ch in src.chars() {
        match ch {
            '⟦' => open = Some(out.chars().count()),
            '⟧' => regions.push((open.take().expect("unbalanced marker"), out.chars().count())),
            c => out.push(c),
        }
    }
    (out, regions)
}

#[derive(Debug)]
enum R {
    Ok,
    Err(Vec<(String, Option<Cols>)>),
    Panic(String),
}

fn conv<T: FromMeta>(m: &syn::Meta) -> R {
    match catch(std::panic::AssertUnwindSafe(|| T::from_meta(m))) {
        Ok(Ok(_)) => R::Ok,
        Ok(Err(e)) => R::Err(e.flatten().into_iter().map(|l| (l.to_string(), l.explicit_span().and_then(vrt::spans::cols))).collect()),
        Err(p) => R::Panic(p),
    }
}

fn conv_value<T: FromMeta>(l: &syn::Lit) -> R {
    match catch(std::panic::AssertUnwindSafe(|| T::from_value(l))) {
        Ok(Ok(_)) => R::Ok,
        Ok(Err(e)) => R::Err(e.flatten().into_iter().map(|l| (l.to_string(), l.explicit_span().and_then(vrt::spans::cols))).collect()),
        Err(p) => R::Panic(p),
    }
}

pub struct Tg {
    pub name: &'static str,
    pub conv: fn(&syn::Meta) -> R,
    /// the literal hook called directly (what wrappers and collection elements do)
    pub conv_value: fn(&syn::Lit) -> R,
    pub cases: Vec<String>,
}

/// `n` members with the faulty one at `pos`.
fn with_bad(n: usize, pos: usize, good: &[&str], bad: &str) -> String {
    (0..n).map(|i| if i == pos { format!("⟦{bad}⟧") } else { good[i % good.len()].to_string() }).collect::<Vec<_>>().join(", ")
}

fn list_cases(good: &[&str], bads: &[&str], wrap: (&str, &str)) -> Vec<String> {
    let mut v = vec![];
    for n in 1..=4 {
        for pos in 0..n {
            for b in bads {
                v.push(format!("{}{}{}", wrap.0, with_bad(n, pos, good, b), wrap.1));
            }
        }
    }
    v
}

macro_rules! tg {
    ($v:ident, $t:ty, $cases:expr) => {
        $v.push(Tg { name: stringify!($t), conv: conv::<$t>, conv_value: conv_value::<$t>, cases: $cases });
    };
}

pub fn targets() -> Vec<Tg> {
    let mut v: Vec<Tg> = vec![];
    // list members
    tg!(v, PathList, list_cases(&["a", "b::c", "::d"], &["k = 1", "\"s\"", "k(x)", "5", "k()"], ("v(", ")")));
    tg!(v, Vec<syn::LitStr>, list_cases(&["\"a\"", "\"b\""], &["5", "k", "k = 1", "true"], ("v(", ")")));
    tg!(v, Vec<syn::LitInt>, list_cases(&["1", "0x2"], &["\"s\"", "k", "1.5", "k(x)"], ("v(", ")")));
    tg!(v, Vec<syn::LitBool>, list_cases(&["true", "false"], &["\"s\"", "k", "5"], ("v(", ")")));
    // array elements
    let arr_bad = ["-2", "x", "1 + 1", "\"s\"", "1.5", "(1)", "[1]", "300"];
    tg!(v, Vec<u8>, list_cases(&["1", "2", "0x3"], &arr_bad, ("v = [", "]")));
    tg!(v, Vec<u16>, list_cases(&["1", "2"], &["-2", "x", "70000", "'c'"], ("v = [", "]")));
    tg!(v, Vec<u32>, list_cases(&["1", "2"], &["-2", "x", "1 + 1"], ("v = [", "]")));
    tg!(v, Vec<u64>, list_cases(&["1", "2"], &["-2", "f(1)"], ("v = [", "]")));
    tg!(v, Vec<usize>, list_cases(&["1", "2"], &["-2", "!1"], ("v = [", "]")));
    // map entries: a faulty value, a faulty key (a bare literal inside a map is reported at the
    // whole map item, which the statement allows for collection conversions; see DESIGN §9)
    tg!(v, HashMap<String, u8>, list_cases(&["a = 1", "b = 2", "c = 3", "d = 4"], &["k = \"x\"", "k = 300", "k", "k(x)"], ("v(", ")")));
    tg!(v, BTreeMap<String, bool>, list_cases(&["a = true", "b", "c = false", "d"], &["k = 5", "k(x)"], ("v(", ")")));
    tg!(v, HashMap<syn::Ident, u8>, list_cases(&["a = 1", "b = 2", "c = 3", "d = 4"], &["k::j = 1", "::k = 1", "k = 'c'"], ("v(", ")")));
    tg!(v, HashMap<syn::Path, char>, list_cases(&["a = 'x'", "b::c = 'y'", "c = 'z'", "d = 'w'"], &["k = \"xy\"", "k = 5", "k(x)"], ("v(", ")")));
    // scalar items among siblings: the span stays inside the item (or its value)
    let sib = |item: &str| -> Vec<String> { vec![format!("w(⟦{item}⟧, z = 1)"), format!("w(a = 1, ⟦{item}⟧, z = 1)"), format!("w(a = 1, z, ⟦{item}⟧)"), format!("⟦{item}⟧")] };
    let many = |items: &[&str]| -> Vec<String> { items.iter().flat_map(|i| sib(i)).collect() };
    tg!(v, u8, many(&["v = 300", "v = -1", "v = \"x\"", "v = 1.5", "v", "v(1)", "v = a::b", "v = !1"]));
    tg!(v, i64, many(&["v = 9223372036854775808", "v = \"x\"", "v = 'c'", "v()"]));
    tg!(v, std::num::NonZeroU8, many(&["v = 0", "v = \"0\"", "v = 256"]));
    tg!(v, f32, many(&["v = \"x\"", "v = 'c'", "v"]));
    tg!(v, bool, many(&["v = 5", "v = \"yes\"", "v(x)"]));
    tg!(v, char, many(&["v = \"xy\"", "v = \"\"", "v = 5", "v"]));
    tg!(v, String, many(&["v = 5", "v", "v(x)"]));
    tg!(v, Flag, many(&["v = true", "v()", "v(x)"]));
    tg!(v, syn::Ident, many(&["v = \"a b\"", "v = a::b", "v = 5", "v(x)"]));
    tg!(v, IdentString, many(&["v = \"a b\"", "v = 5"]));
    tg!(v, syn::Path, many(&["v = \"1x\"", "v = 5", "v = 1 + 2", "v"]));
    tg!(v, syn::Expr, many(&["v = \"1 +\"", "v", "v(x)"]));
    tg!(v, syn::LitInt, many(&["v = \"s\"", "v = 1.5", "v"]));
    tg!(v, syn::Visibility, many(&["v = \"pubx y\"", "v = 5"]));
    tg!(v, syn::Type, many(&["v = \"1 +\"", "v = 5"]));
    tg!(v, Callable, many(&["v = 5", "v = \"1 +\"", "v"]));
    tg!(v, Option<u8>, many(&["v = 300", "v = \"x\"", "v(1)"]));
    tg!(v, Box<char>, many(&["v = \"xy\"", "v = 5"]));
    tg!(v, SpannedValue<u8>, many(&["v = 300", "v", "v(x)"]));
    tg!(v, Override<u8>, many(&["v = 300", "v = \"x\"", "v(x)"]));
    tg!(v, WithOriginal<u8, syn::Meta>, many(&["v = 300", "v"]));
    // a refused *value* is reported at the value, not at the whole item: bare words, paths and
    // strings handed to targets that cannot take them, among siblings
    let at_value = |vals: &[&str]| -> Vec<String> {
        vals.iter().flat_map(|x| vec![format!("w(v = ⟦{x}⟧, z = 1)"), format!("w(a = 1, v = ⟦{x}⟧, z = 1)"), format!("w(a = 1, z, v = ⟦{x}⟧)"), format!("v = ⟦{x}⟧")]).collect()
    };
    tg!(v, u8, at_value(&["high", "a::b", "\"high\"", "300", "-1", "1.5", "yes"]));
    tg!(v, bool, at_value(&["maybe", "on", "\"maybe\"", "5", "yes"]));
    tg!(v, char, at_value(&["comma", "\"ab\"", "5"]));
    tg!(v, f64, at_value(&["fast", "\"fast\"", "'c'"]));
    tg!(v, String, at_value(&["fast", "5", "a::b", "true"]));
    tg!(v, std::path::PathBuf, at_value(&["fast", "5"]));
    tg!(v, PathList, at_value(&["\"Debug, +\"", "\"Debug, Clone = 1\"", "\"a, x(y)\"", "\"Debug, Clone\"", "fast", "5"]));
    tg!(v, Callable, at_value(&["\"a::b\"", "\"|x| x\"", "5", "1 + 2"]));
    tg!(v, syn::LitStr, at_value(&["fast", "5"]));
    v
}

fn meta_of(text: &str) -> Option<(syn::Meta, bool)> {
    // `w(...)` wrapper: the marked item is a member of w's list; otherwise the text is the item
    let di: syn::DeriveInput = syn::parse_str(&format!("#[{text}] struct S;")).ok()?;
    let meta = di.attrs[0].meta.clone();
    if text.starts_with("w(") {
        let list = meta.require_list().ok()?;
        let items = darling::ast::NestedMeta::parse_meta_list(list.tokens.clone()).ok()?;
        for it in items {
            if let darling::ast::NestedMeta::Meta(m) = it {
                if m.path().is_ident("v") {
                    return Some((m, true));
                }
            }
        }
        None
    } else {
        Some((meta, false))
    }
}

pub fn check_case(tg: &Tg, marked: &str, t: &mut Tally) {
    let (text, regions) = unmark(marked);
    // columns are relative to `#[` + text
    let regions: Vec<Cols> = regions.into_iter().map(|(a, b)| (a + 2, b + 2)).collect();
    t.evaluations += 1;
    let Some((meta, _)) = meta_of(&text) else {
        t.hit("builtin_span_unparseable");
        t.violate(Violation { key: format!("C03 builtin machinery `{text}`"), what: format!("machinery: `{text}` is not an attribute"), case: json!({}), detail: json!({}) });
        return;
    };
    let bad = |msg: String, t: &mut Tally| {
        t.violate(Violation {
            key: format!("C03 builtin target={} input=`{marked}` :: {msg}", tg.name),
            what: format!("{} <- `{marked}` (the part at fault is marked): {msg}", tg.name),
            case: json!({"engine": "builtin-spans", "target": tg.name, "input": marked}),
            detail: json!({}),
        })
    };
    match (tg.conv)(&meta) {
        R::Panic(p) => bad(format!("panicked: {p}"), t),
        R::Ok => bad("accepted although the marked part is not convertible".into(), t),
        R::Err(leaves) => {
            t.nontrivial += 1;
            t.hit("builtin_span_checked");
            if leaves.is_empty() {
                bad("error without leaves".into(), t);
            }
            for (msg, sp) in leaves {
                match sp {
                    None => bad(format!("leaf `{msg}` carries no span"), t),
                    Some(s) => {
                        if !regions.iter().any(|r| vrt::spans::within(s, *r)) {
                            bad(format!("leaf `{msg}` is spanned at columns {s:?}, the part at fault is at {regions:?}"), t);
                        }
                    }
                }
            }
        }
    }
    // a literal value refused by the conversion is refused by the literal hook as well, with a
    // span inside the literal (hand-written conversions re-span nothing)
    if let syn::Meta::NameValue(syn::MetaNameValue { value: syn::Expr::Lit(l), .. }) = &meta {
        use syn::spanned::Spanned;
        let lit_cols = vrt::spans::cols(l.lit.span());
        if let R::Err(leaves) = (tg.conv_value)(&l.lit) {
            t.hit("builtin_from_value_checked");
            for (msg, sp) in leaves {
                match (sp, lit_cols) {
                    (None, _) => bad(format!("from_value on the literal: leaf `{msg}` carries no span"), t),
                    (Some(s), Some(lc)) if !vrt::spans::within(s, lc) => bad(format!("from_value on the literal: leaf `{msg}` is spanned at {s:?}, the literal is at {lc:?}"), t),
                    _ => {}
                }
            }
        }
    }
    vrt::spans::reset();
}

pub fn sweep() -> Tally {
    let mut t = Tally::default();
    for tg in targets() {
        for c in &tg.cases {
            check_case(&tg, c, &mut t);
        }
    }
    t
}

pub fn replay(case: &serde_json::Value) -> bool {
    let ts = targets();
    let Some(tg) = ts.iter().find(|t| Some(t.name) == case["target"].as_str()) else { return false };
    let mut t = Tally::default();
    check_case(tg, case["input"].as_str().unwrap_or(""), &mut t);
    for v in &t.violations {
        println!("replay: {}", v.what);
    }
    t.violations.is_empty()
}
