//! C10 — derive-time validation accepts exactly the well-formed declarations. Ordered selections
//! of options (every split over attributes) on fields, variants and containers, plus body-level
//! rules, through the six derive functions; a rule-set model predicts accept / reject and the
//! tokens each diagnostic must sit on.
use crate::c06::{classify_output, Outcome, DERIVES};
use crate::Args;
use rayon::prelude::*;
use serde_json::json;
use vrt::{catch, Report, Tally, Tier, Violation};

type Cols = (usize, usize);

/// A declaration under test: source line, the anchors (column ranges) of the violated rules of
/// the first failing layer, and whether any rule is violated at all.
pub struct Decl {
    pub src: String,
    /// one entry per violated rule: the tokens a diagnostic for it must lie in; None = the rule
    /// has no tokens of its own (whole-item verdicts)
    pub anchors: Vec<Option<Cols>>,
    pub family: &'static str,
    pub derives: Vec<usize>,
    /// false: the statement does not settle acceptance (e.g. `word = false` twice); only
    /// totality is judged (by C06)
    pub judged: bool,
}

// ------------------------------------------------------------------ field options

#[derive(Clone, Copy, PartialEq, Eq, Debug)]
enum FK {
    Rename,
    Default,
    With,
    Skip(bool),
    Map,
    AndThen,
    Multiple(bool),
    Flatten,
    Unknown,
}

const FIELD_OPTS: [(&str, FK); 13] = [
    ("rename = \"x\"", FK::Rename),
    ("default", FK::Default),
    ("default = f", FK::Default),
    ("with = f", FK::With),
    ("skip", FK::Skip(true)),
    ("skip = false", FK::Skip(false)),
    ("map = f", FK::Map),
    ("and_then = f", FK::AndThen),
    ("multiple", FK::Multiple(true)),
    ("multiple = false", FK::Multiple(false)),
    ("flatten", FK::Flatten),
    ("zz", FK::Unknown),
    ("rename = \"y\"", FK::Rename),
];

fn same_name(a: FK, b: FK) -> bool {
    std::mem::discriminant(&a) == std::mem::discriminant(&b)
}

/// Indices (into `seq`) of the items that anchor a violated rule; one entry per rule.
fn field_rules(seq: &[FK]) -> Vec<usize> {
    let mut out = vec![];
    for (i, k) in seq.iter().enumerate() {
        if *k == FK::Unknown {
            out.push(i);
        }
        // repetition of the same option name
        if *k != FK::Unknown && seq[..i].iter().any(|p| same_name(*p, *k)) {
            out.push(i);
        }
    }
    // map together with and_then: anchored at the later of the two first occurrences
    if let (Some(m), Some(a)) = (seq.iter().position(|k| *k == FK::Map), seq.iter().position(|k| *k == FK::AndThen)) {
        out.push(m.max(a));
    }
    // flatten conflicts
    if let Some(f) = seq.iter().position(|k| *k == FK::Flatten) {
        if let Some(j) = seq.iter().position(|k| *k == FK::Rename) {
            out.push(f.max(j));
        }
        if let Some(j) = seq.iter().position(|k| *k == FK::With) {
            out.push(f.max(j));
        }
        if let Some(j) = seq.iter().position(|k| matches!(k, FK::Skip(_))) {
            if seq[j] == FK::Skip(true) {
                out.push(f.max(j));
            }
        }
        if let Some(j) = seq.iter().position(|k| matches!(k, FK::Multiple(_))) {
            if seq[j] == FK::Multiple(true) {
                out.push(f.max(j));
            }
        }
    }
    out
}

/// Prints options split over attributes by `mask` (bit i set = new attribute before item i+1);
/// returns the text and each item's columns relative to the text start.
fn print_opts(texts: &[&str], mask: usize) -> (String, Vec<Cols>) {
    let mut s = String::from("#[darling(");
    let mut cols = vec![];
    for (i, t) in texts.iter().enumerate() {
        if i > 0 {
            if mask >> (i - 1) & 1 == 1 {
                s.push_str(")] #[darling(");
            } else {
                s.push_str(", ");
            }
        }
        let a = s.chars().count();
        s.push_str(t);
        cols.push((a, s.chars().count()));
    }
    s.push_str(")]");
    (s, cols)
}

fn selections(n: usize, maxlen: usize) -> Vec<Vec<usize>> {
    let mut out = vec![];
    let mut frontier: Vec<Vec<usize>> = vec![vec![]];
    for _ in 0..maxlen {
        let mut next = vec![];
        for f in &frontier {
            for a in 0..n {
                let mut x = f.clone();
                x.push(a);
                next.push(x);
            }
        }
        out.extend(next.iter().cloned());
        frontier = next;
    }
    out
}

fn field_decls(maxlen: usize, out: &mut Vec<Decl>) {
    for sel in selections(FIELD_OPTS.len(), maxlen) {
        let kinds: Vec<FK> = sel.iter().map(|i| FIELD_OPTS[*i].1).collect();
        let texts: Vec<&str> = sel.iter().map(|i| FIELD_OPTS[*i].0).collect();
        let rules = field_rules(&kinds);
        for mask in 0..(1usize << (sel.len() - 1)) {
            let (opts, cols) = print_opts(&texts, mask);
            // element-level traits: the container needs `attributes(a)` only for FromAttributes
            for (prefix, derives) in [("", vec![0usize]), ("#[darling(attributes(a))] ", vec![1, 2, 3, 4, 5])] {
                let head = format!("{prefix}struct S {{ ");
                let off = head.chars().count();
                let src = format!("{head}{opts} a: Vec<u8>, b: u8 }}");
                let anchors = rules.iter().map(|i| Some((cols[*i].0 + off, cols[*i].1 + off))).collect();
                out.push(Decl { src, anchors, family: "field options", derives, judged: true });
            }
        }
    }
}

// ------------------------------------------------------------------ variant options

#[derive(Clone, Copy, PartialEq, Eq, Debug)]
enum VK {
    Rename,
    Skip,
    Word,
    Unknown,
}
const VARIANT_OPTS: [(&str, VK); 6] = [("rename = \"x\"", VK::Rename), ("skip", VK::Skip), ("word", VK::Word), ("zz", VK::Unknown), ("rename = \"y\"", VK::Rename), ("skip = false", VK::Skip)];

fn variant_decls(maxlen: usize, out: &mut Vec<Decl>) {
    for (body, unit) in [("V0", true), ("V0(u8)", false), ("V0 { x: u8 }", false)] {
        for sel in selections(VARIANT_OPTS.len(), maxlen) {
            let kinds: Vec<VK> = sel.iter().map(|i| VARIANT_OPTS[*i].1).collect();
            let texts: Vec<&str> = sel.iter().map(|i| VARIANT_OPTS[*i].0).collect();
            let mut rules = vec![];
            for (i, k) in kinds.iter().enumerate() {
                if *k == VK::Unknown {
                    rules.push(i);
                } else if kinds[..i].contains(k) {
                    rules.push(i);
                } else if *k == VK::Word && !unit {
                    rules.push(i); // word on a non-unit variant
                }
            }
            for mask in 0..(1usize << (sel.len() - 1)) {
                let (opts, cols) = print_opts(&texts, mask);
                let head = "enum E { ";
                let off = head.chars().count();
                let src = format!("{head}{opts} {body}, Other }}");
                let anchors = rules.iter().map(|i| Some((cols[*i].0 + off, cols[*i].1 + off))).collect();
                out.push(Decl { src, anchors, family: "variant options", derives: vec![0], judged: true });
            }
        }
    }
}

// ------------------------------------------------------------------ container options

#[derive(Clone, Copy, PartialEq, Eq, Debug)]
enum CK {
    Default,
    RenameAll,
    Map,
    AndThen,
    Bound,
    AllowUnknown,
    FromWord,
    FromNone,
    Attributes,
    ForwardAttrs,
    FromIdent,
    SupportsOk,
    SupportsBad,
    Unknown,
}

const CONTAINER_OPTS: [(&str, CK); 23] = [
    ("default", CK::Default),
    ("default = f", CK::Default),
    ("rename_all = \"snake_case\"", CK::RenameAll),
    ("map = f", CK::Map),
    ("and_then = f", CK::AndThen),
    ("bound = \"T: X\"", CK::Bound),
    ("allow_unknown_fields", CK::AllowUnknown),
    ("from_word = f", CK::FromWord),
    ("from_none = f", CK::FromNone),
    ("attributes(a)", CK::Attributes),
    ("forward_attrs", CK::ForwardAttrs),
    ("forward_attrs(a)", CK::ForwardAttrs),
    ("from_ident", CK::FromIdent),
    ("supports(any)", CK::SupportsOk),
    ("supports(struct_named, enum_any)", CK::SupportsOk),
    ("supports(zz)", CK::SupportsBad),
    ("supports(struct_struct_named)", CK::SupportsBad),
    ("supports(struct_named::x)", CK::SupportsBad),
    ("supports(any, struct_zz)", CK::SupportsBad),
    ("supports(enum_zz, any)", CK::SupportsBad),
    ("supports(struct_named, zz, enum_unit)", CK::SupportsBad),
    ("zz", CK::Unknown),
    ("rename_all = \"kebab-case\"", CK::RenameAll),
];

/// Is option `k` known to derive `d` (index into DERIVES)?
fn container_known(k: CK, d: usize) -> bool {
    match k {
        CK::Unknown => false,
        CK::FromWord | CK::FromNone => d == 0,
        CK::Attributes | CK::ForwardAttrs | CK::FromIdent => d != 0,
        CK::SupportsOk | CK::SupportsBad => d == 1 || d == 3,
        _ => true,
    }
}

fn container_rules(seq: &[CK], d: usize) -> Vec<usize> {
    let mut out = vec![];
    for (i, k) in seq.iter().enumerate() {
        if !container_known(*k, d) {
            out.push(i);
            continue;
        }
        if *k == CK::SupportsBad {
            // FromVariant takes un-prefixed words: all of ours are unknown there too
            out.push(i);
        }
        if d == 3 && *k == CK::SupportsOk {
            // `any` alone is a FromVariant word; `struct_named, enum_any` are not
        }
        let repeat_is_error = matches!(k, CK::Default | CK::Map | CK::AndThen | CK::AllowUnknown | CK::FromWord | CK::FromNone);
        if repeat_is_error && seq[..i].iter().any(|p| p == k && container_known(*p, d)) {
            out.push(i);
        }
    }
    if let (Some(m), Some(a)) = (seq.iter().position(|k| *k == CK::Map), seq.iter().position(|k| *k == CK::AndThen)) {
        out.push(m.max(a));
    }
    out
}

fn container_decls(maxlen: usize, out: &mut Vec<Decl>) {
    for sel in selections(CONTAINER_OPTS.len(), maxlen) {
        let kinds: Vec<CK> = sel.iter().map(|i| CONTAINER_OPTS[*i].1).collect();
        let texts: Vec<&str> = sel.iter().map(|i| CONTAINER_OPTS[*i].0).collect();
        // FromVariant's supports(..) takes other words; keep that derive to selections without
        // the FromDeriveInput word lists
        for d in 0..6usize {
            if d == 3 && sel.iter().any(|i| CONTAINER_OPTS[*i].0.starts_with("supports(struct_named, enum_any")) {
                continue;
            }
            let mut rules = container_rules(&kinds, d);
            let has_attributes = kinds.contains(&CK::Attributes);
            for mask in 0..(1usize << (sel.len() - 1)) {
                let (opts, cols) = print_opts(&texts, mask);
                let src = format!("{opts} struct S {{ a: u8, b: u8 }}");
                let mut anchors: Vec<Option<Cols>> = rules.iter().map(|i| Some(cols[*i])).collect();
                if d == 5 && !has_attributes && rules.is_empty() {
                    anchors.push(None); // FromAttributes without attributes(..)
                }
                out.push(Decl { src, anchors, family: "container options", derives: vec![d], judged: true });
            }
            rules.clear();
        }
    }
}

// ------------------------------------------------------------------ body-level rules

fn find(src: &str, needle: &str, nth: usize) -> Option<Cols> {
    let mut start = 0;
    let mut n = 0;
    while let Some(i) = src[start..].find(needle) {
        let at = start + i;
        if n == nth {
            let a = src[..at].chars().count();
            return Some((a, a + needle.chars().count()));
        }
        n += 1;
        start = at + needle.len();
    }
    None
}

fn body_decls(out: &mut Vec<Decl>) {
    let all: Vec<usize> = (0..6).collect();
    let elem: Vec<usize> = (1..6).collect();
    let mut push = |src: &str, anchors: Vec<Option<Cols>>, derives: &[usize]| out.push(Decl { src: src.to_string(), anchors, family: "body rules", derives: derives.to_vec(), judged: true });
    let a = "#[darling(attributes(a))] ";
    for pre in ["", a] {
        let ds: &[usize] = if pre.is_empty() { &[0] } else { &elem };
        // flatten: 0 / 1 / 2 / 3 fields
        push(&format!("{pre}struct S {{ a: u8, b: u8 }}"), vec![], ds);
        push(&format!("{pre}struct S {{ #[darling(flatten)] a: u8, b: u8 }}"), vec![], ds);
        let s2 = format!("{pre}struct S {{ #[darling(flatten)] a: u8, #[darling(flatten)] b: u8 }}");
        push(&s2, vec![find(&s2, "flatten", 0), find(&s2, "flatten", 1)], ds);
        let s3 = format!("{pre}struct S {{ #[darling(flatten)] a: u8, c: u8, #[darling(flatten)] b: u8, #[darling(default, flatten)] d: u8 }}");
        push(&s3, vec![find(&s3, "flatten", 0), find(&s3, "flatten", 1), find(&s3, "flatten", 2)], ds);
        // errors on two different fields are all reported
        let s4 = format!("{pre}struct S {{ #[darling(zz)] a: u8, #[darling(skip, skip)] b: u8, c: u8 }}");
        push(&s4, vec![find(&s4, "zz", 0), find(&s4, "skip", 1)], ds);
        // unions
        push(&format!("{pre}union U {{ a: u8, b: u16 }}"), vec![None], ds);
    }
    // word rules (FromMeta enums)
    push("enum E { #[darling(word)] A, B }", vec![], &[0]);
    let w2 = "enum E { #[darling(word)] A, #[darling(word)] B, C }";
    push(w2, vec![find(w2, "word", 0), find(w2, "word", 1)], &[0]);
    let w3 = "enum E { #[darling(word)] A(u8), B }";
    push(w3, vec![find(w3, "word", 0)], &[0]);
    let w4 = "enum E { #[darling(word)] A { x: u8 }, B }";
    push(w4, vec![find(w4, "word", 0)], &[0]);
    let w5 = "#[darling(from_word = f)] enum E { #[darling(word)] A, B }";
    push(w5, vec![find(w5, "from_word = f", 0)], &[0]);
    let w6 = "#[darling(from_word = f)] enum E { #[darling(word)] A, #[darling(word)] B }";
    push(w6, vec![find(w6, "from_word = f", 0), find(w6, "word", 1), find(w6, "word", 2)], &[0]);
    // the word rules do not look at `skip` (a skipped variant still declares a word)
    for sk in ["skip, word", "word, skip", "skip = true, word"] {
        let w7 = format!("enum E {{ #[darling({sk})] A, #[darling(word)] B, C }}");
        push(&w7, vec![find(&w7, "word", 0), find(&w7, "word", 1)], &[0]);
        let w8 = format!("enum E {{ C, #[darling(word)] B, #[darling(skip)] #[darling(word)] A }}");
        push(&w8, vec![find(&w8, "word", 0), find(&w8, "word", 1)], &[0]);
        let w9 = format!("#[darling(from_word = f)] enum E {{ #[darling({sk})] A, B }}");
        push(&w9, vec![find(&w9, "from_word = f", 0)], &[0]);
    }
    push("enum E { #[darling(skip, word)] A, B }", vec![], &[0]);
    push("#[darling(from_word = f)] enum E { A, B }", vec![], &[0]);
    push("#[darling(from_word = f)] struct S { a: u8 }", vec![], &[0]);
    // `from_word` conflicts with unit and newtype structs only: braces / parens without fields,
    // all-skipped bodies and wider bodies keep it
    push("#[darling(from_word = f)] struct S {}", vec![], &[0]);
    push("#[darling(from_word = f)] struct S { #[darling(skip)] a: u8 }", vec![], &[0]);
    push("#[darling(from_word = f)] struct S { a: u8, b: u8, c: u8 }", vec![], &[0]);
    push("#[darling(from_none = f)] struct S {}", vec![], &[0]);
    push("#[darling(from_none = f)] struct S;", vec![], &[0]);
    let fw1 = "#[darling(from_word = f)] struct S;";
    push(fw1, vec![find(fw1, "f)", 0).map(|c| (c.0, c.1 - 1))], &[0]);
    let fw2 = "#[darling(from_word = f)] struct S(u8);";
    push(fw2, vec![find(fw2, "f)", 0).map(|c| (c.0, c.1 - 1))], &[0]);
    // bodies the trait cannot represent
    push("struct S(u8, u8);", vec![None], &[0]);
    push("struct S(u8, u8, u8);", vec![None], &[0]);
    push("enum E { A(u8, u8), B }", vec![None], &[0]);
    push("enum E { A, B(u8, u8), C(u8, u8) }", vec![None, None], &[0]);
    // a skipped variant is never parsed: its shape does not matter
    push("enum E { A, #[darling(skip)] B(u8, u8), #[darling(skip)] C() }", vec![], &[0]);
    push("enum E { A, #[darling(skip = false)] B(u8, u8) }", vec![None], &[0]);
    push("enum E { #[darling(skip)] A(u8, u8), B(u8, u8) }", vec![None], &[0]);
    push("struct S(u8);", vec![], &[0]);
    push("struct S;", vec![], &[0]);
    push("enum E { A, B(u8), C { x: u8 } }", vec![], &[0]);
    push("enum E {}", vec![], &[0]);
    for body in ["enum E {}", "enum E { A }", "enum E { A, B(u8) }"] {
        push(&format!("{a}{body}"), vec![None], &elem);
    }
    // "more than one flatten field" inside a struct variant of a FromMeta enum
    push("enum E { A { #[darling(flatten)] a: u8, b: u8 }, B }", vec![], &[0]);
    let vf2 = "enum E { A { #[darling(flatten)] a: u8, #[darling(flatten)] b: u8, c: u8 }, B }";
    push(vf2, vec![find(vf2, "flatten", 0), find(vf2, "flatten", 1)], &[0]);
    let vf3 = "enum E { B, A { #[darling(flatten)] a: u8, c: u8, #[darling(default, flatten)] b: u8 }, C { #[darling(flatten)] x: u8 } }";
    push(vf3, vec![find(vf3, "flatten", 0), find(vf3, "flatten", 1)], &[0]);
    // one flatten field in each of two variants is no conflict
    push("enum E { A { #[darling(flatten)] a: u8 }, C { #[darling(flatten)] x: u8, y: u8 } }", vec![], &[0]);
    // an option name is one identifier: a path that merely ends in (or is `::` +) an option name
    // is an unknown option, at every position
    for o in ["::skip", "::rename = \"x\"", "::default", "::multiple", "::flatten", "::with = f", "::map = f", "darling::skip", "a::default"] {
        let s = format!("struct S {{ #[darling({o})] a: u8, b: u8 }}");
        push(&s, vec![find(&s, o, 0)], &[0]);
        let s = format!("{a}struct S {{ #[darling({o})] a: u8, b: u8 }}");
        push(&s, vec![find(&s, o, 0)], &elem);
    }
    for o in ["::skip", "::word", "::rename = \"x\"", "darling::skip", "a::word"] {
        let s = format!("enum E {{ #[darling({o})] A, B }}");
        push(&s, vec![find(&s, o, 0)], &[0]);
        let s = format!("enum E {{ A, #[darling({o})] B(u8) }}");
        push(&s, vec![find(&s, o, 0)], &[0]);
    }
    for o in ["::default", "::rename_all = \"snake_case\"", "::allow_unknown_fields", "::map = f", "::from_word = f", "darling::default"] {
        let s = format!("#[darling({o})] struct S {{ a: u8 }}");
        push(&s, vec![find(&s, o, 0)], &[0]);
    }
    for o in ["::forward_attrs", "::supports(any)", "::from_ident", "darling::attributes(b)"] {
        let s = format!("#[darling(attributes(a), {o})] struct S {{ a: u8 }}");
        push(&s, vec![find(&s, o, 0)], &[1]);
    }
    // path-valued options accept the documented quoted spelling as well as the bare one
    for o in ["map = \"f\"", "and_then = \"a::f\"", "default = \"f\"", "map = f", "and_then = a::f", "default = f", "with = f", "with = |m| f(m)", "default = \"a::b::<u8>\""] {
        let s = format!("struct S {{ #[darling({o})] a: u8, b: u8 }}");
        push(&s, vec![], &[0]);
        let s = format!("{a}struct S {{ #[darling({o})] a: u8, b: u8 }}");
        push(&s, vec![], &elem);
    }
    for o in ["map = \"f\"", "and_then = \"a::f\"", "default = \"f\"", "from_word = f", "from_none = || None"] {
        let s = format!("#[darling({o})] struct S {{ a: u8 }}");
        push(&s, vec![], &[0]);
    }
    // shape words: FromVariant takes the un-prefixed words only, FromDeriveInput the prefixed
    // ones (and `any`) only
    for (words, bad) in [
        ("unit, newtype", vec![]),
        ("any", vec![]),
        ("named, tuple, newtype, unit", vec![]),
        ("enum_unit", vec!["enum_unit"]),
        ("struct_named", vec!["struct_named"]),
        ("unit, enum_newtype", vec!["enum_newtype"]),
        ("enum_any, named", vec!["enum_any"]),
        ("struct_any", vec!["struct_any"]),
    ] {
        let s = format!("#[darling(attributes(a), supports({words}))] struct S {{ a: u8 }}");
        // (the variant-level parser reports a bad word at the whole `supports(..)` option)
        let opt = format!("supports({words})");
        push(&s, if bad.is_empty() { vec![] } else { vec![find(&s, &opt, 0)] }, &[3]);
    }
    for (words, bad) in [("struct_named, enum_unit", vec![]), ("unit", vec!["unit"]), ("named", vec!["named"]), ("struct_named, newtype", vec!["newtype"]), ("tuple, enum_any", vec!["tuple"])] {
        let s = format!("#[darling(attributes(a), supports({words}))] struct S {{ a: u8 }}");
        push(&s, bad.iter().map(|w| find(&s, w, 0)).collect(), &[1]);
    }
    // from_none conflicts with nothing: unit, newtype, empty and named structs and enums keep it
    for body in ["struct S;", "struct S(u8);", "struct S {}", "struct S { a: u8 }", "enum E { A, B(u8) }", "enum E {}"] {
        push(&format!("#[darling(from_none = f)] {body}"), vec![], &[0]);
    }
    // attrs field needs forward_attrs
    let at1 = format!("{a}struct S {{ attrs: Vec<syn::Attribute>, b: u8 }}");
    push(&at1, vec![find(&at1, "attrs", 0)], &elem);
    let at2 = "#[darling(attributes(a), forward_attrs)] struct S { attrs: Vec<syn::Attribute>, b: u8 }";
    push(at2, vec![], &elem);
    let at3 = "#[darling(attributes(a), forward_attrs(doc))] struct S { attrs: Vec<syn::Attribute>, b: u8 }";
    push(at3, vec![], &elem);
    // every written form of forward_attrs counts as "set": an empty list, a trailing comma,
    // several names, paths; with or without `attributes(..)`, in either order
    for fw in ["forward_attrs()", "forward_attrs(doc,)", "forward_attrs(doc, allow, cfg)", "forward_attrs(a::b)", "forward_attrs(a)"] {
        push(&format!("#[darling(attributes(a), {fw})] struct S {{ attrs: Vec<syn::Attribute>, b: u8 }}"), vec![], &elem);
        push(&format!("#[darling({fw}, attributes(a))] struct S {{ b: u8, attrs: Vec<syn::Attribute> }}"), vec![], &elem);
        push(&format!("#[darling({fw})] #[darling(attributes(a))] struct S {{ #[darling(with = f)] attrs: Vec<u8> }}"), vec![], &elem);
        push(&format!("#[darling({fw})] struct S {{ attrs: Vec<syn::Attribute> }}"), vec![], &[1, 2, 3, 4]);
        // without an `attrs` field it is harmless
        push(&format!("#[darling(attributes(a), {fw})] struct S {{ b: u8 }}"), vec![], &elem);
    }
    // a blank value is a value: `rename = ""` conflicts with flatten and counts as a repetition
    for blank in ["\"\"", "\" \"", "\"\\t\""] {
        for pre in ["", a] {
            let ds: &[usize] = if pre.is_empty() { &[0] } else { &elem };
            let s1 = format!("{pre}struct S {{ #[darling(rename = {blank}, flatten)] x: u8, y: u8 }}");
            push(&s1, vec![find(&s1, "flatten", 0)], ds);
            let s2 = format!("{pre}struct S {{ #[darling(flatten, rename = {blank})] x: u8, y: u8 }}");
            push(&s2, vec![find(&s2, &format!("rename = {blank}"), 0)], ds);
            let s3 = format!("{pre}struct S {{ #[darling(rename = {blank})] #[darling(flatten)] x: u8, y: u8 }}");
            push(&s3, vec![find(&s3, "flatten", 0)], ds);
            let s4 = format!("{pre}struct S {{ #[darling(rename = {blank}, rename = \"b\")] x: u8, y: u8 }}");
            push(&s4, vec![find(&s4, "rename = \"b\"", 0)], ds);
            let s5 = format!("{pre}struct S {{ #[darling(rename = {blank})] x: u8, y: u8 }}");
            push(&s5, vec![], ds);
        }
        let e1 = format!("enum E {{ A {{ #[darling(rename = {blank}, flatten)] x: u8 }}, #[darling(rename = {blank}, rename = \"b\")] B }}");
        push(&e1, vec![find(&e1, "flatten", 0), find(&e1, "rename = \"b\"", 0)], &[0]);
    }
    // a body the trait cannot represent does not excuse the members' own violations
    let t1 = "struct S(#[darling(zz)] u8, u8);";
    push(t1, vec![find(t1, "zz", 0), None], &[0]);
    let t2 = "struct S(#[darling(skip, skip)] u8, #[darling(rename = \"a\", flatten)] u8, u8);";
    push(t2, vec![find(t2, "skip", 1), find(t2, "flatten", 0), None], &[0]);
    let t3 = "struct S(#[darling(flatten)] u8, #[darling(flatten)] u8);";
    push(t3, vec![find(t3, "flatten", 0), find(t3, "flatten", 1), None], &[0]);
    // on FromMeta `attrs` is an ordinary field
    push("struct S { attrs: u8, ident: u8 }", vec![], &[0]);
    // FromAttributes needs attributes(..)
    push("struct S { a: u8 }", vec![None], &[5]);
    push("#[darling(attributes(a))] struct S { a: u8 }", vec![], &elem);
    let _ = &all;
    // a body-level rule next to an unrelated per-member error: every violated rule is reported
    for pre in ["", a] {
        let ds: &[usize] = if pre.is_empty() { &[0] } else { &elem };
        let s1 = format!("{pre}struct S {{ #[darling(flatten)] a: u8, #[darling(flatten)] b: u8, #[darling(zz)] c: u8 }}");
        push(&s1, vec![find(&s1, "flatten", 0), find(&s1, "flatten", 1), find(&s1, "zz", 0)], ds);
        let s2 = format!("{pre}struct S {{ #[darling(skip, skip)] c: u8, #[darling(flatten)] a: u8, d: u8, #[darling(flatten)] b: u8 }}");
        push(&s2, vec![find(&s2, "skip", 1), find(&s2, "flatten", 0), find(&s2, "flatten", 1)], ds);
    }
    let c1 = format!("{a}struct S {{ attrs: Vec<syn::Attribute>, #[darling(zz)] b: u8 }}");
    push(&c1, vec![find(&c1, "attrs", 0), find(&c1, "zz", 0)], &elem);
    let c2 = "enum E { #[darling(word)] A, #[darling(word)] B, #[darling(zz)] C }";
    push(c2, vec![find(c2, "word", 0), find(c2, "word", 1), find(c2, "zz", 0)], &[0]);
    let c3 = "#[darling(from_word = f)] enum E { #[darling(word)] A, #[darling(rename = \"x\", rename = \"y\")] B }";
    push(c3, vec![find(c3, "from_word = f", 0), find(c3, "rename = \"y\"", 0)], &[0]);
    let c4 = "#[darling(from_word = f)] struct S(#[darling(zz)] u8);";
    push(c4, vec![find(c4, "f)", 0).map(|c| (c.0, c.1 - 1)), find(c4, "zz", 0)], &[0]);
    // FromAttributes: a newtype struct delegates and needs no attributes(..)
    push("struct S(u8);", vec![], &[5]);
    push("#[darling(attributes(a))] struct S(u8);", vec![], &[1, 5]);
    // element-level receivers are filled in by field name: a tuple struct is only representable
    // as a newtype, and only where the impl delegates to the inner type
    push("struct S(u8);", vec![], &[1]);
    push("#[darling(attributes(a))] struct S(u8);", vec![None], &[2, 3, 4]);
    push("struct S(u8);", vec![None], &[2, 3, 4]);
    push("#[darling(attributes(a))] struct S(u8, u8);", vec![None], &elem);
    push("#[darling(attributes(a))] struct S(#[darling(skip)] u8, u8, u8);", vec![None], &elem);
    push("#[darling(attributes(a))] struct S();", vec![], &elem);
    push("#[darling(attributes(a))] struct S;", vec![], &elem);
    // an `attrs` field with a converter still needs forward_attrs
    let at4 = format!("{a}struct S {{ #[darling(with = f)] attrs: Vec<u8>, b: u8 }}");
    push(&at4, vec![find(&at4, "attrs", 0)], &elem);
    let at5 = "#[darling(attributes(a), forward_attrs)] struct S { #[darling(with = f)] attrs: Vec<u8>, b: u8 }";
    push(at5, vec![], &elem);
    // `data` with a converter is fine (FromDeriveInput)
    push("#[darling(attributes(a))] struct S { #[darling(with = f)] data: u8, b: u8 }", vec![], &[1]);
    // known option, value of the wrong form
    for (opt, needle) in [("skip = 5", "5"), ("rename = 5", "5"), ("multiple = \"yes\"", "\"yes\""), ("default(x)", "default(x)"), ("with = 5", "5"), ("map = 5", "5"), ("flatten = 1", "flatten = 1")] {
        let s = format!("{a}struct S {{ #[darling({opt})] a: u8, b: u8 }}");
        push(&s, vec![find(&s, needle, 0)], &elem);
        let s = format!("struct S {{ #[darling({opt})] a: u8, b: u8 }}");
        push(&s, vec![find(&s, needle, 0)], &[0]);
    }
    for (opt, needle) in [("rename_all = \"bogus\"", "\"bogus\""), ("attributes(a = 1)", "a = 1"), ("allow_unknown_fields = 5", "5"), ("default(x)", "default(x)")] {
        let s = format!("#[darling({opt})] #[darling(attributes(b))] struct S {{ a: u8 }}");
        push(&s, vec![find(&s, needle, 0)], &elem);
    }
}

fn unjudged_decls(out: &mut Vec<Decl>) {
    for src in [
        "enum E { #[darling(word = false)] A, #[darling(word = false)] B }",
        "enum E { #[darling(word = false)] A, #[darling(word = false)] B, #[darling(word = false)] C }",
        "enum E { #[darling(word = false)] A, #[darling(word)] B }",
        "#[darling(from_word = f)] enum E { #[darling(word = false)] A, B }",
        "#[darling(::map = f)] struct S { a: u8 }",
        "#[darling(::and_then = f, ::default)] struct S { #[darling(::map = f, ::skip)] a: u8 }",
        "#[darling(supports(struct_named, enum_any = true))] struct S { a: u8 }",
        "#[darling(supports(struct_named, \"lit\"))] struct S { a: u8 }",
        "#[darling(supports(struct_named(x), enum_any))] struct S { a: u8 }",
        "#[darling(supports(any, zz = 1))] struct S { a: u8 }",
        "#[darling(attributes(a, b = 1), forward_attrs(c(d)))] struct S { a: u8 }",
        "#[darling(attributes(\"a\"))] struct S { a: u8 }",
        "#[darling(bound = \"not a predicate !\")] struct S { a: u8 }",
        "#[darling(rename_all = 5, default = 5, map = \"1 +\")] struct S { a: u8 }",
        "struct S { #[darling(with = \"f\", default = \"1 +\", rename = 'c')] a: u8 }",
        "struct S { attrs: u8, #[darling(with = f)] data: u8, #[darling(with = 5)] ident: u8 }",
    ] {
        out.push(Decl { src: src.to_string(), anchors: vec![], family: "unjudged forms", derives: (0..6).collect(), judged: false });
    }
}

pub fn decls(tier: Tier) -> Vec<Decl> {
    let mut out = vec![];
    unjudged_decls(&mut out);
    field_decls(tier.pick(3, 4), &mut out);
    variant_decls(tier.pick(3, 4), &mut out);
    container_decls(tier.pick(2, 3), &mut out);
    body_decls(&mut out);
    out
}

// ------------------------------------------------------------------ judging

fn diag_spans(ts: proc_macro2::TokenStream) -> Vec<Option<Cols>> {
    let Ok(file) = syn::parse2::<syn::File>(ts) else { return vec![] };
    let mut out = vec![];
    for it in &file.items {
        if let syn::Item::Macro(m) = it {
            let mut lo = usize::MAX;
            let mut hi = 0;
            let mut any = false;
            for t in quote::ToTokens::to_token_stream(m) {
                if let Some((a, b)) = vrt::spans::cols(t.span()) {
                    lo = lo.min(a);
                    hi = hi.max(b);
                    any = true;
                }
            }
            out.push(if any { Some((lo, hi)) } else { None });
        }
    }
    out
}

pub fn check_decl(dc: &Decl, only_totality: bool, t: &mut Tally) {
    let di: syn::DeriveInput = match syn::parse_str(&dc.src) {
        Ok(d) => d,
        Err(e) => {
            t.hit("generator_unparseable");
            t.violate(Violation { key: format!("C10 machinery `{}`", dc.src), what: format!("machinery: `{}` does not parse: {e}", dc.src), case: json!({}), detail: json!({}) });
            return;
        }
    };
    for &d in &dc.derives {
        t.evaluations += 1;
        let (name, f) = DERIVES[d];
        let res = catch(std::panic::AssertUnwindSafe(|| f(&di)));
        let prop = if only_totality { "C06" } else { "C10" };
        let complain = |msg: String, t: &mut Tally| {
            t.violate(Violation {
                key: format!("{prop} derive={name} family=[{}] src=`{}` :: {msg}", dc.family, dc.src),
                what: format!("derive({name}) on `{}`: {msg}", dc.src),
                case: json!({"src": dc.src, "derive": d, "anchors": dc.anchors}),
                detail: json!({}),
            })
        };
        let ts = match res {
            Ok(ts) => ts,
            Err(p) => {
                complain(format!("panicked: {p}"), t);
                continue;
            }
        };
        let outcome = classify_output(name, ts.clone());
        if only_totality {
            if let Outcome::Malformed(m) = &outcome {
                complain(format!("output is neither one impl nor diagnostics: {m}"), t);
            }
            continue;
        }
        if !dc.judged {
            continue;
        }
        let expect_accept = dc.anchors.is_empty();
        match (&outcome, expect_accept) {
            (Outcome::Impl, true) => t.hit("accepted"),
            (Outcome::Impl, false) => {
                t.hit("expect_reject");
                t.nontrivial += 1;
                complain(format!("accepted although {} rule(s) are violated", dc.anchors.len()), t)
            }
            (Outcome::Diagnostics(n), true) => complain(format!("well-formed declaration rejected with {n} diagnostic(s)"), t),
            (Outcome::Diagnostics(_), false) => {
                t.hit("expect_reject");
                t.nontrivial += 1;
                t.class(&format!("rules={}", dc.anchors.len().min(5)));
                // every violated rule has a diagnostic inside its anchor; every diagnostic sits
                // on some offending tokens
                let spans = diag_spans(ts);
                let mut used = vec![false; spans.len()];
                for a in &dc.anchors {
                    let hit = spans.iter().enumerate().position(|(i, s)| {
                        !used[i]
                            && match (a, s) {
                                (Some(a), Some(s)) => vrt::spans::within(*s, *a),
                                (None, _) => true,
                                (Some(_), None) => false,
                            }
                    });
                    match hit {
                        Some(i) => used[i] = true,
                        None => {
                            complain(format!("no diagnostic at the offending tokens {:?} (diagnostics at {spans:?})", a.map(|c| dc.src.chars().skip(c.0).take(c.1 - c.0).collect::<String>())), t);
                            break;
                        }
                    }
                }
                if dc.anchors.iter().all(|a| a.is_some()) {
                    for (i, s) in spans.iter().enumerate() {
                        if !used[i] {
                            let inside_any = match s {
                                Some(s) => dc.anchors.iter().flatten().any(|a| vrt::spans::within(*s, *a)),
                                None => false,
                            };
                            if !inside_any {
                                let text: String = s.map(|c| dc.src.chars().skip(c.0).take(c.1 - c.0).collect()).unwrap_or_default();
                                complain(format!("a diagnostic at `{text}` does not sit on any offending tokens"), t);
                                break;
                            }
                        }
                    }
                }
            }
            (Outcome::Malformed(m), _) => complain(format!("output is neither one impl nor diagnostics: {m}"), t),
            (Outcome::Panic(p), _) => complain(format!("panicked: {p}"), t),
        }
    }
    vrt::spans::reset();
}

pub fn sweep(tier: Tier, only_totality: bool) -> (Tally, usize) {
    let ds = decls(tier);
    let n = ds.len();
    let t = ds
        .par_chunks(128)
        .map(|chunk| {
            let mut t = Tally::default();
            for d in chunk {
                check_decl(d, only_totality, &mut t);
            }
            t
        })
        .reduce(Tally::default, Tally::merge);
    (t, n)
}

pub fn main(args: &Args) {
    if let Some(p) = &args.replay {
        let c = crate::load_case(p);
        let src = c["src"].as_str().unwrap().to_string();
        let d = c["derive"].as_u64().unwrap() as usize;
        let anchors: Vec<Option<Cols>> = serde_json::from_value(c["anchors"].clone()).unwrap_or_default();
        let dc = Decl { src, anchors, family: "replay", derives: vec![d], judged: true };
        let mut t = Tally::default();
        check_decl(&dc, false, &mut t);
        for v in &t.violations {
            println!("replay: {}", v.what);
        }
        println!("replay: {} violation(s)", t.violations.len());
        std::process::exit(if t.violations.is_empty() { 0 } else { 1 });
    }
    let mut rep = Report::new("C10", args.tier, "model_checking");
    let (mut t, n) = sweep(args.tier, false);
    t.states = n as u64;
    t.transitions = t.evaluations;
    t.traces = t.evaluations;
    rep.absorb(t);
    rep.set("declarations", json!(n));
    rep.rule = format!(
        "declarations: every ordered selection of <= {} of 13 field options x every split over attributes (x FromMeta and the five element-level derives), of 6 variant options on unit / newtype / struct variants, of 20 container options per derive; ~70 body-level declarations (0..3 flatten fields, word rules, from_word on unit/newtype, attrs without forward_attrs, FromAttributes without attributes, unions, multi-field tuples, enums on element-level derives, wrong-form values). Rule-set model (unknown option, repeated option where repetition is an error, flatten with rename/with/skip/multiple in either order, map with and_then, ...) gives the violated rules and their anchor tokens; oracle: impl emitted iff no rule violated, otherwise only diagnostics, each violated rule of the first failing layer has a diagnostic whose tokens lie inside its anchor, and no diagnostic sits elsewhere. states = declarations; traces = derive calls; non-trivial = declarations with a violated rule.",
        args.tier.pick(2, 3)
    );
    rep.assumptions = vec!["diagnostic positions are read from the spans of the compile_error! tokens".into()];
    rep.tally.samples.push(json!({"src": "struct S { #[darling(multiple)] #[darling(flatten, rename = \"x\")] a: Vec<u8>, b: u8 }", "violated": ["flatten+multiple at `flatten`", "flatten+rename at `rename = \"x\"`"]}));
    rep.require_counter("accepted");
    rep.require_counter("expect_reject");
    rep.require(rep.tally.counters.get("generator_unparseable").is_none(), "generator produced unparseable declarations");
    rep.finish()
}
