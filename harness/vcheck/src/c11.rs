//! C11 — scalar conversions are exact. Bounded-exhaustive literal enumeration against
//! `str::parse` (quoted) and an independent bignum evaluation of the literal (bare).
use crate::Args;
use darling_core::FromMeta;
use rayon::prelude::*;
use serde_json::json;
use vrt::{catch, Report, Tally, Violation};

// ------------------------------------------------------------------ tiny bignum

#[derive(Clone, Debug, PartialEq, Eq)]
pub struct Big(Vec<u32>); // little endian, no trailing zero limbs

impl Big {
    pub fn zero() -> Big {
        Big(vec![])
    }
    #[allow(dead_code)]
    pub fn from_u128(mut v: u128) -> Big {
        let mut l = vec![];
        while v > 0 {
            l.push(v as u32);
            v >>= 32;
        }
        Big(l)
    }
    fn trim(&mut self) {
        while self.0.last() == Some(&0) {
            self.0.pop();
        }
    }
    pub fn mul_small_add(&mut self, m: u32, a: u32) {
        let mut carry = a as u64;
        for l in self.0.iter_mut() {
            let v = *l as u64 * m as u64 + carry;
            *l = v as u32;
            carry = v >> 32;
        }
        if carry > 0 {
            self.0.push(carry as u32);
        }
    }
    fn divmod_small(&mut self, d: u32) -> u32 {
        let mut rem = 0u64;
        for l in self.0.iter_mut().rev() {
            let v = (rem << 32) | *l as u64;
            *l = (v / d as u64) as u32;
            rem = v % d as u64;
        }
        self.trim();
        rem as u32
    }
    pub fn is_zero(&self) -> bool {
        self.0.is_empty()
    }
    pub fn pow2(k: u32) -> Big {
        let mut l = vec![0u32; (k / 32) as usize];
        l.push(1 << (k % 32));
        Big(l)
    }
    pub fn add_small(&mut self, a: u32) {
        let mut carry = a as u64;
        for l in self.0.iter_mut() {
            let v = *l as u64 + carry;
            *l = v as u32;
            carry = v >> 32;
            if carry == 0 {
                break;
            }
        }
        if carry > 0 {
            self.0.push(carry as u32);
        }
    }
    /// self -= a; returns false (and leaves self unspecified) if it would go negative
    pub fn sub_small(&mut self, a: u32) -> bool {
        let mut borrow = a as i64;
        for l in self.0.iter_mut() {
            let v = *l as i64 - borrow;
            if v < 0 {
                *l = (v + (1i64 << 32)) as u32;
                borrow = 1;
            } else {
                *l = v as u32;
                borrow = 0;
                break;
            }
        }
        self.trim();
        borrow == 0
    }
    pub fn to_radix(&self, radix: u32) -> String {
        if self.is_zero() {
            return "0".into();
        }
        let mut t = self.clone();
        let mut out = vec![];
        while !t.is_zero() {
            let d = t.divmod_small(radix);
            out.push(std::char::from_digit(d, radix).unwrap());
        }
        out.iter().rev().collect()
    }
    pub fn from_radix(s: &str, radix: u32) -> Option<Big> {
        let mut b = Big::zero();
        let mut any = false;
        for c in s.chars() {
            let d = c.to_digit(radix)?;
            b.mul_small_add(radix, d);
            any = true;
        }
        if any {
            Some(b)
        } else {
            None
        }
    }
}

/// Independent reading of a bare Rust integer literal: (negative, magnitude in decimal).
pub fn eval_int_literal(text: &str) -> Option<(bool, String)> {
    let t = text.trim();
    let (neg, t) = match t.strip_prefix('-') {
        Some(r) => (true, r.trim_start()),
        None => (false, t),
    };
    let (radix, body) = if let Some(r) = t.strip_prefix("0x") {
        (16, r)
    } else if let Some(r) = t.strip_prefix("0o") {
        (8, r)
    } else if let Some(r) = t.strip_prefix("0b") {
        (2, r)
    } else {
        (10, t)
    };
    // digits (with underscores) then an optional suffix starting at the first char that is
    // not a digit of the radix / underscore
    let mut digits = String::new();
    let mut rest = "";
    for (i, c) in body.char_indices() {
        if c == '_' {
            continue;
        }
        if c.is_digit(radix) {
            digits.push(c);
        } else {
            rest = &body[i..];
            break;
        }
    }
    const SUFFIXES: [&str; 12] = ["u8", "u16", "u32", "u64", "u128", "usize", "i8", "i16", "i32", "i64", "i128", "isize"];
    if !rest.is_empty() && !SUFFIXES.contains(&rest) {
        return None;
    }
    let b = Big::from_radix(&digits, radix)?;
    Some((neg, b.to_radix(10)))
}

// ------------------------------------------------------------------ targets

pub trait Target: FromMeta {
    fn canon(&self) -> String;
    fn std_parse(s: &str) -> Option<String>;
}
macro_rules! int_targets {
    ($($t:ty),*) => { $(impl Target for $t {
        fn canon(&self) -> String { self.to_string() }
        fn std_parse(s: &str) -> Option<String> { s.parse::<$t>().ok().map(|v| v.to_string()) }
    })* };
}
int_targets!(
    u8, u16, u32, u64, u128, usize, i8, i16, i32, i64, i128, isize, std::num::NonZeroU8, std::num::NonZeroU16, std::num::NonZeroU32,
    std::num::NonZeroU64, std::num::NonZeroU128, std::num::NonZeroUsize, std::num::NonZeroI8, std::num::NonZeroI16, std::num::NonZeroI32,
    std::num::NonZeroI64, std::num::NonZeroI128, std::num::NonZeroIsize
);
macro_rules! float_targets {
    ($($t:ty),*) => { $(impl Target for $t {
        fn canon(&self) -> String { if self.is_nan() { "NaN".into() } else { format!("bits:{:x}", self.to_bits()) } }
        fn std_parse(s: &str) -> Option<String> { s.parse::<$t>().ok().map(|v| v.canon()) }
    })* };
}
float_targets!(f32, f64);
impl Target for bool {
    fn canon(&self) -> String {
        self.to_string()
    }
    fn std_parse(s: &str) -> Option<String> {
        s.parse::<bool>().ok().map(|v| v.to_string())
    }
}
impl Target for char {
    fn canon(&self) -> String {
        format!("{:?}", self)
    }
    fn std_parse(s: &str) -> Option<String> {
        s.parse::<char>().ok().map(|v| format!("{:?}", v))
    }
}
impl Target for String {
    fn canon(&self) -> String {
        format!("{:?}", self)
    }
    fn std_parse(s: &str) -> Option<String> {
        Some(format!("{:?}", s))
    }
}
impl Target for std::path::PathBuf {
    fn canon(&self) -> String {
        format!("{:?}", self.to_str().unwrap())
    }
    fn std_parse(s: &str) -> Option<String> {
        Some(format!("{:?}", s))
    }
}

#[derive(Clone, Copy, PartialEq, Eq, Debug)]
pub enum Kind {
    Int,
    Float,
    Bool,
    Char,
    Str,
}

pub struct TargetInfo {
    pub name: &'static str,
    pub kind: Kind,
    pub run: fn(&str, Ctx) -> Obs,
    pub std_parse: fn(&str) -> Option<String>,
}

/// Where the value sits: alone in the attribute, or first / last item of a list.
#[derive(Clone, Copy, PartialEq, Eq, Debug, serde::Serialize, serde::Deserialize)]
pub enum Ctx {
    Lone,
    ListFirst,
    ListLast,
    /// the same three positions with the value forwarded by a `macro_rules!` `$e:expr`, i.e.
    /// wrapped in an invisible (`Delimiter::None`) group
    GroupLone,
    GroupFirst,
    GroupLast,
    /// two nested invisible groups (a fragment forwarded through two macros)
    Group2First,
    Group2Last,
}

impl Ctx {
    fn grouped(self) -> bool {
        matches!(self, Ctx::GroupLone | Ctx::GroupFirst | Ctx::GroupLast | Ctx::Group2First | Ctx::Group2Last)
    }
    fn depth(self) -> usize {
        match self {
            Ctx::Group2First | Ctx::Group2Last => 2,
            c if c.grouped() => 1,
            _ => 0,
        }
    }
    fn base(self) -> Ctx {
        match self {
            Ctx::GroupLone => Ctx::Lone,
            Ctx::GroupFirst | Ctx::Group2First => Ctx::ListFirst,
            Ctx::GroupLast | Ctx::Group2Last => Ctx::ListLast,
            c => c,
        }
    }
}

/// Wraps the value of the first `v = <value>` found (at any nesting level) in an invisible group
/// whose span covers the value tokens. Returns whether a value was wrapped.
fn group_value(ts: proc_macro2::TokenStream, done: &mut bool, depth: usize) -> proc_macro2::TokenStream {
    use proc_macro2::{Delimiter, Group, TokenTree};
    let toks: Vec<TokenTree> = ts.into_iter().collect();
    let mut out: Vec<TokenTree> = vec![];
    let mut i = 0;
    while i < toks.len() {
        let is_v = matches!(&toks[i], TokenTree::Ident(id) if id == "v");
        let eq_next = matches!(toks.get(i + 1), Some(TokenTree::Punct(p)) if p.as_char() == '=' && p.spacing() == proc_macro2::Spacing::Alone);
        if !*done && is_v && eq_next {
            out.push(toks[i].clone());
            out.push(toks[i + 1].clone());
            let mut j = i + 2;
            let mut inner: Vec<TokenTree> = vec![];
            while j < toks.len() && !matches!(&toks[j], TokenTree::Punct(p) if p.as_char() == ',') {
                inner.push(toks[j].clone());
                j += 1;
            }
            if !inner.is_empty() {
                let span = inner[0].span().join(inner[inner.len() - 1].span()).unwrap_or_else(|| inner[0].span());
                let mut g = Group::new(Delimiter::None, inner.into_iter().collect());
                g.set_span(span);
                for _ in 1..depth {
                    let mut outer = Group::new(Delimiter::None, std::iter::once(TokenTree::Group(g)).collect());
                    outer.set_span(span);
                    g = outer;
                }
                out.push(TokenTree::Group(g));
                *done = true;
            }
            i = j;
            continue;
        }
        match &toks[i] {
            TokenTree::Group(g) if !*done && g.delimiter() != Delimiter::None => {
                let mut ng = Group::new(g.delimiter(), group_value(g.stream(), done, depth));
                ng.set_span(g.span());
                out.push(TokenTree::Group(ng));
            }
            t => out.push(t.clone()),
        }
        i += 1;
    }
    out.into_iter().collect()
}

#[derive(Debug, Clone)]
pub enum Obs {
    Ok(String),
    Err { msg: String, span: Option<(usize, usize)>, item: (usize, usize), value: Option<(usize, usize)> },
    Panic(String),
    /// two entry points of the same conversion disagree
    Inconsistent(String),
    /// the source text is not an attribute syn accepts (generator problem, not a verdict)
    NoParse(String),
    /// grouped context asked for an item that has no `= value` part
    NoValue,
}

/// Builds the attribute, extracts the meta item for `v`, converts. `form` is the full item
/// text, e.g. `v = 5`, `v`, `v(1)`.
fn run<T: Target>(form: &str, ctx: Ctx) -> Obs {
    use syn::spanned::Spanned;
    let grouped = ctx.grouped();
    let depth = ctx.depth();
    let ctx = ctx.base();
    let src = match ctx {
        Ctx::Lone => format!("#[{form}] struct S;"),
        Ctx::ListFirst => format!("#[w({form}, zz = 1)] struct S;"),
        _ => format!("#[w(zz = 1, {form})] struct S;"),
    };
    let parsed: syn::Result<syn::DeriveInput> = if grouped {
        // the ungrouped text must be an attribute in the first place
        if let Err(e) = syn::parse_str::<syn::DeriveInput>(&src) {
            return Obs::NoParse(e.to_string());
        }
        let ts: proc_macro2::TokenStream = src.parse().unwrap();
        let mut done = false;
        let ts = group_value(ts, &mut done, depth);
        if !done {
            return Obs::NoValue;
        }
        syn::parse2(ts)
    } else {
        syn::parse_str(&src)
    };
    let di: syn::DeriveInput = match parsed {
        Ok(d) => d,
        Err(e) => return Obs::NoParse(e.to_string()),
    };
    let r = catch(std::panic::AssertUnwindSafe(|| {
        let meta = &di.attrs[0].meta;
        let mut direct_lit: Option<syn::Lit> = None;
        let mut note_lit = |m: &syn::Meta| {
            if let syn::Meta::NameValue(syn::MetaNameValue { value: syn::Expr::Lit(l), .. }) = m {
                direct_lit = Some(l.lit.clone());
            }
        };
        let (res, item_span, value_span) = match ctx {
            Ctx::Lone => {
                let vs = match meta {
                    syn::Meta::NameValue(nv) => vrt::spans::cols(nv.value.span()),
                    _ => None,
                };
                note_lit(meta);
                (T::from_meta(meta), vrt::spans::cols(meta.span()), vs)
            }
            _ => {
                let list = meta.require_list().unwrap();
                let items = match darling_core::ast::NestedMeta::parse_meta_list(list.tokens.clone()) {
                    Ok(i) => i,
                    Err(e) => return Obs::NoParse(e.to_string()),
                };
                let it = if ctx == Ctx::ListFirst { &items[0] } else { &items[items.len() - 1] };
                let vs = match it {
                    darling_core::ast::NestedMeta::Meta(syn::Meta::NameValue(nv)) => vrt::spans::cols(nv.value.span()),
                    _ => None,
                };
                if let darling_core::ast::NestedMeta::Meta(m) = it {
                    note_lit(m);
                }
                (T::from_nested_meta(it), vrt::spans::cols(it.span()), vs)
            }
        };
        match res {
            Ok(v) => Obs::Ok(v.canon()),
            Err(e) => {
                // the literal handed straight to the literal hook (what a wrapper such as
                // Override or an array element does): refused there too, with a span
                if let Some(lit) = &direct_lit {
                    match T::from_value(lit) {
                        Ok(v) => return Obs::Inconsistent(format!("from_meta refuses the item but from_value accepts its literal as {}", v.canon())),
                        Err(d) if !d.has_span() => return Obs::Inconsistent(format!("from_value refuses the literal without a span (`{d}`)")),
                        Err(_) => {}
                    }
                }
                Obs::Err { msg: e.to_string(), span: e.explicit_span().and_then(vrt::spans::cols), item: item_span.unwrap_or((0, 0)), value: value_span }
            }
        }
    }));
    vrt::spans::reset();
    match r {
        Ok(o) => o,
        Err(p) => Obs::Panic(p),
    }
}

macro_rules! ti {
    ($name:expr, $kind:expr, $t:ty) => {
        TargetInfo { name: $name, kind: $kind, run: run::<$t>, std_parse: <$t as Target>::std_parse }
    };
}

pub fn targets() -> Vec<TargetInfo> {
    use std::num::*;
    vec![
        ti!("u8", Kind::Int, u8),
        ti!("i8", Kind::Int, i8),
        ti!("u16", Kind::Int, u16),
        ti!("i16", Kind::Int, i16),
        ti!("NonZeroU8", Kind::Int, NonZeroU8),
        ti!("NonZeroI16", Kind::Int, NonZeroI16),
        ti!("u32", Kind::Int, u32),
        ti!("u64", Kind::Int, u64),
        ti!("u128", Kind::Int, u128),
        ti!("usize", Kind::Int, usize),
        ti!("i32", Kind::Int, i32),
        ti!("i64", Kind::Int, i64),
        ti!("i128", Kind::Int, i128),
        ti!("isize", Kind::Int, isize),
        ti!("NonZeroU16", Kind::Int, NonZeroU16),
        ti!("NonZeroU32", Kind::Int, NonZeroU32),
        ti!("NonZeroU64", Kind::Int, NonZeroU64),
        ti!("NonZeroU128", Kind::Int, NonZeroU128),
        ti!("NonZeroUsize", Kind::Int, NonZeroUsize),
        ti!("NonZeroI8", Kind::Int, NonZeroI8),
        ti!("NonZeroI32", Kind::Int, NonZeroI32),
        ti!("NonZeroI64", Kind::Int, NonZeroI64),
        ti!("NonZeroI128", Kind::Int, NonZeroI128),
        ti!("NonZeroIsize", Kind::Int, NonZeroIsize),
        ti!("f32", Kind::Float, f32),
        ti!("f64", Kind::Float, f64),
        ti!("bool", Kind::Bool, bool),
        ti!("char", Kind::Char, char),
        ti!("String", Kind::Str, String),
        ti!("PathBuf", Kind::Str, std::path::PathBuf),
    ]
}

// ------------------------------------------------------------------ cases

/// One case: the text after `v` (e.g. ` = 5`, `(1)`, ``), and how the oracle reads it.
#[derive(Clone, Debug, serde::Serialize, serde::Deserialize)]
pub enum Lit {
    /// bare integer literal text (may carry sign, radix, underscores, suffix)
    BareInt(String),
    /// bare float literal text
    BareFloat(String),
    /// quoted string with these contents (must be printable without escapes)
    Quoted(String),
    /// any other value expression / form: always rejected for numeric targets
    Other(String),
}

#[derive(Clone, Debug, serde::Serialize, serde::Deserialize)]
pub struct Case {
    pub target: String,
    pub lit: Lit,
    pub ctx: Ctx,
}

fn rust_str(s: &str) -> String {
    // a string literal token denoting exactly `s`
    let mut o = String::from("\"");
    for c in s.chars() {
        match c {
            '"' => o.push_str("\\\""),
            '\\' => o.push_str("\\\\"),
            '\n' => o.push_str("\\n"),
            c => o.push(c),
        }
    }
    o.push('"');
    o
}

impl Lit {
    fn form(&self) -> String {
        match self {
            Lit::BareInt(t) | Lit::BareFloat(t) => format!("v = {t}"),
            Lit::Quoted(s) => format!("v = {}", rust_str(s)),
            Lit::Other(t) => format!("v{t}"),
        }
    }
}

fn float_literal_to_std(text: &str) -> String {
    let t: String = text.chars().filter(|c| *c != '_' && *c != ' ').collect();
    let t = t.strip_suffix("f32").or_else(|| t.strip_suffix("f64")).unwrap_or(&t).to_string();
    t
}

/// What the statement requires for `lit` into `target`: Some(canonical value) or None = reject.
pub fn expected(ti: &TargetInfo, lit: &Lit) -> Option<String> {
    match (ti.kind, lit) {
        (Kind::Int, Lit::BareInt(t)) => {
            let (neg, dec) = eval_int_literal(t)?;
            (ti.std_parse)(&format!("{}{}", if neg { "-" } else { "" }, dec))
        }
        (Kind::Float, Lit::BareFloat(t)) => (ti.std_parse)(&float_literal_to_std(t)),
        (Kind::Int | Kind::Float | Kind::Bool | Kind::Char | Kind::Str, Lit::Quoted(s)) => (ti.std_parse)(s),
        (Kind::Bool, Lit::Other(t)) => match t.as_str() {
            "" => Some("true".into()),
            " = true" => Some("true".into()),
            " = false" => Some("false".into()),
            _ => None,
        },
        (Kind::Char, Lit::Other(t)) => {
            // ` = 'x'`
            let t = t.strip_prefix(" = ")?;
            let l: syn::LitChar = syn::parse_str(t).ok()?;
            Some(format!("{:?}", l.value()))
        }
        (Kind::Str, Lit::Other(t)) => {
            // raw / escaped string literal tokens given verbatim
            let t = t.strip_prefix(" = ")?;
            let l: syn::LitStr = syn::parse_str(t).ok()?;
            Some(format!("{:?}", l.value()))
        }
        _ => None,
    }
}

pub fn check_case(ti: &TargetInfo, lit: &Lit, ctx: Ctx, t: &mut Tally) {
    t.evaluations += 1;
    let form = lit.form();
    let obs = (ti.run)(&form, ctx);
    let exp = expected(ti, lit);
    let bad = |msg: String, t: &mut Tally| {
        t.violate(Violation {
            key: format!("C11 target={} form=`{}` ctx={:?} :: {}", ti.name, form, ctx, msg),
            what: format!("{} <- `{}` ({:?}): {}", ti.name, form, ctx, msg),
            case: json!({"target": ti.name, "lit": lit, "ctx": ctx}),
            detail: json!({"expected": exp, "observed": format!("{obs:?}")}),
        })
    };
    match (&obs, &exp) {
        (Obs::NoValue, _) => {
            t.evaluations -= 1;
        }
        (Obs::NoParse(e), _) => {
            // the generator only emits well-formed attributes
            t.hit("generator_unparseable");
            bad(format!("machinery: generated attribute does not parse: {e}"), t);
        }
        (Obs::Panic(p), _) => bad(format!("panicked: {p}"), t),
        (Obs::Inconsistent(m), _) => bad(m.clone(), t),
        (Obs::Ok(v), Some(w)) => {
            t.hit("accepted");
            if v != w {
                bad(format!("accepted as {v}, the denoted value is {w}"), t);
            }
        }
        (Obs::Ok(v), None) => bad(format!("accepted as {v} although the target's standard parsing rejects it / wrong kind or form"), t),
        (Obs::Err { msg, .. }, Some(w)) => bad(format!("rejected (`{msg}`) although it denotes {w}"), t),
        (Obs::Err { msg, span, item, value }, None) => {
            t.hit("rejected");
            t.nontrivial += 1;
            match span {
                None => bad(format!("rejected without a span (`{msg}`)"), t),
                Some(s) => {
                    if !vrt::spans::within(*s, *item) {
                        bad(format!("error span {s:?} lies outside the item {item:?}"), t);
                    } else if let Some(v) = value {
                        if vrt::spans::within(*s, *v) {
                            t.hit("span_inside_value");
                        } else {
                            t.hit("span_on_item");
                        }
                    }
                }
            }
        }
    }
}

fn int_spellings(mag: &Big, neg: bool, full: bool) -> Vec<String> {
    let mut out = vec![];
    let sign = if neg { "-" } else { "" };
    let dec = mag.to_radix(10);
    out.push(format!("{sign}{dec}"));
    if !full {
        return out;
    }
    let hex = mag.to_radix(16);
    let oct = mag.to_radix(8);
    let bin = mag.to_radix(2);
    let us = |s: &str| -> String {
        // underscore after every digit
        let mut o = String::new();
        for (i, c) in s.chars().enumerate() {
            if i > 0 {
                o.push('_');
            }
            o.push(c);
        }
        o
    };
    for body in [dec.clone(), format!("0x{hex}"), format!("0o{oct}"), format!("0b{bin}")] {
        out.push(format!("{sign}{body}"));
    }
    out.push(format!("{sign}0x{}", hex.to_uppercase()));
    out.push(format!("{sign}{}", us(&dec)));
    out.push(format!("{sign}{dec}_"));
    out.push(format!("{sign}0x_{}", us(&hex)));
    out.push(format!("{sign}0b_{bin}__"));
    out.push(format!("{sign}00{dec}"));
    if neg {
        out.push(format!("- {dec}"));
    }
    for suf in ["u8", "u16", "u32", "u64", "u128", "usize", "i8", "i16", "i32", "i64", "i128", "isize"] {
        out.push(format!("{sign}{dec}{suf}"));
        out.push(format!("{sign}{dec}_{suf}"));
        // `0x..` + a suffix that starts with a hex digit would be digits; only i/u suffixes exist, fine
        out.push(format!("{sign}0x{hex}{suf}"));
        out.push(format!("{sign}0b{bin}{suf}"));
    }
    out
}

fn boundary_magnitudes() -> Vec<Big> {
    let mut v: Vec<Big> = vec![];
    for k in [0u32, 7, 8, 15, 16, 31, 32, 63, 64, 127, 128, 129, 130] {
        for d in -2i32..=2 {
            let mut b = Big::pow2(k);
            let ok = if d < 0 { b.sub_small((-d) as u32) } else {
                b.add_small(d as u32);
                true
            };
            if ok {
                v.push(b);
            }
        }
    }
    // every power of two +-1 up to 2^130 (thorough adds them all)
    v
}

fn all_pow2(maxk: u32) -> Vec<Big> {
    let mut v = vec![];
    for k in 0..=maxk {
        for d in [-2i32, -1, 0, 1, 2] {
            let mut b = Big::pow2(k);
            let ok = if d < 0 { b.sub_small((-d) as u32) } else {
                b.add_small(d as u32);
                true
            };
            if ok {
                v.push(b);
            }
        }
    }
    // long digit strings
    for n in [20usize, 38, 39, 40, 41, 45] {
        v.push(Big::from_radix(&"9".repeat(n), 10).unwrap());
        v.push(Big::from_radix(&format!("1{}", "0".repeat(n - 1)), 10).unwrap());
        v.push(Big::from_radix(&format!("3{}", "4".repeat(n - 1)), 10).unwrap());
    }
    v
}

const QUOTED_ODD: [&str; 22] = [
    "", " ", "+5", "-5", " 5", "5 ", "0x10", "1_000", "٣", "5u8", "-0", "+0", "00005", "- 5", "+", "-", "1e3", "1.0", "255", "256", "-128", "-129",
];

fn float_texts() -> (Vec<String>, Vec<String>) {
    // (bare literal texts, quoted-only texts)
    let mants = ["0.0", "1.0", "1.5", "123456789.125", "9007199254740993.0", "0.1", "3.4028235", "3.4028236", "1.7976931348623157", "1.7976931348623159", "4.9", "2.5", "1.401298464324817", "0.7006492321624085"];
    let exps = ["", "e0", "e1", "e-1", "e38", "e-38", "e39", "e-39", "e-45", "e-46", "e308", "e-308", "e309", "e-309", "e-324", "e-325", "e400", "e-400", "E5", "e+5"];
    let sufs = ["", "f32", "f64", "_f32"];
    let mut bare = vec![];
    for m in mants {
        for e in exps {
            for s in sufs {
                for sign in ["", "-"] {
                    bare.push(format!("{sign}{m}{e}{s}"));
                }
            }
        }
    }
    for extra in ["2.", "1_0.0", "1_000.000_1", "1e5", "1E5", "1e+5", "1_e5", "0.000000000000000000000000000000000000000000001", "16777217.0", "16777216.0", "16777218.0", "0.30000000000000004", "5e-324", "2.2250738585072014e-308", "2.2250738585072011e-308"] {
        bare.push(extra.to_string());
        bare.push(format!("-{extra}"));
    }
    // f32 rounding midpoints +- a hair: correct single rounding differs from rounding via f64
    for v in [1.0f32, 16777216.0, 0.1, 1.0e-3, 3.0e38, 1.17549435e-38, 7.0e-45, 33554432.0, 0.5, 123456.79] {
        for up in [true, false] {
            let next = f32::from_bits(if up { v.to_bits() + 1 } else { v.to_bits() - 1 });
            let mid = (v as f64 + next as f64) / 2.0; // exact in f64
            let exact = format!("{:.200}", mid);
            let exact = exact.trim_end_matches('0').to_string();
            let exact = if exact.ends_with('.') { format!("{exact}0") } else { exact };
            bare.push(exact.clone()); // the tie itself
            bare.push(format!("{exact}000000000000000000001")); // just above
            // just below: decrement the last digit and append 9s
            let mut cs: Vec<char> = exact.chars().collect();
            if let Some(i) = cs.iter().rposition(|c| c.is_ascii_digit() && *c != '0') {
                cs[i] = std::char::from_digit(cs[i].to_digit(10).unwrap() - 1, 10).unwrap();
                let s: String = cs.iter().collect();
                bare.push(format!("{s}99999999999999999999"));
            }
        }
    }
    let quoted: Vec<String> = ["inf", "-inf", "NaN", "nan", "infinity", "+inf", "1e", ".", ".5", "5.", "1_0.0", "", " 1.0", "1.0 ", "0x10", "1.0f32", "+1.5", "1e400", "-1e400", "1e-400", "1", "-7"].iter().map(|s| s.to_string()).collect();
    (bare, quoted)
}

pub fn main(args: &Args) {
    let tis = targets();
    if let Some(p) = &args.replay {
        let c: Case = serde_json::from_value(crate::load_case(p)).unwrap();
        let ti = tis.iter().find(|t| t.name == c.target).unwrap();
        let mut t = Tally::default();
        check_case(ti, &c.lit, c.ctx, &mut t);
        for v in &t.violations {
            println!("replay: {}", v.what);
        }
        println!("replay: {} violation(s)", t.violations.len());
        std::process::exit(if t.violations.is_empty() { 0 } else { 1 });
    }
    let mut rep = Report::new("C11", args.tier, "exploration");
    let thorough = args.tier == vrt::Tier::Thorough;
    let ctxs = [Ctx::Lone, Ctx::ListFirst, Ctx::ListLast, Ctx::GroupLone, Ctx::GroupFirst, Ctx::GroupLast, Ctx::Group2First, Ctx::Group2Last];

    // (1) the dense range, bare and quoted, every context
    let range_targets: Vec<&TargetInfo> = tis.iter().filter(|t| t.kind == Kind::Int).take(if thorough { 24 } else { 6 }).collect();
    let range = 70000i64;
    let tl = range_targets
        .par_iter()
        .flat_map(|ti| (0..16).into_par_iter().map(move |sh| (*ti, sh)))
        .map(|(ti, sh)| {
            let mut t = Tally::default();
            let mut n = -range + sh;
            while n <= range {
                let s = n.to_string();
                for ctx in [Ctx::Lone, Ctx::ListFirst, Ctx::ListLast, Ctx::GroupFirst] {
                    check_case(ti, &Lit::BareInt(s.clone()), ctx, &mut t);
                }
                check_case(ti, &Lit::Quoted(s.clone()), Ctx::Lone, &mut t);
                check_case(ti, &Lit::Quoted(s), Ctx::ListFirst, &mut t);
                n += 16;
            }
            t
        })
        .reduce(Tally::default, Tally::merge);
    rep.absorb(tl);

    // (2) boundaries in every spelling, every integer target, every context
    let mags = if thorough { all_pow2(130) } else { boundary_magnitudes() };
    let int_targets: Vec<&TargetInfo> = tis.iter().filter(|t| t.kind == Kind::Int).collect();
    let tl = int_targets
        .par_iter()
        .flat_map(|ti| mags.par_iter().map(move |m| (*ti, m)))
        .map(|(ti, m)| {
            let mut t = Tally::default();
            for neg in [false, true] {
                for sp in int_spellings(m, neg, true) {
                    for ctx in ctxs {
                        check_case(ti, &Lit::BareInt(sp.clone()), ctx, &mut t);
                    }
                }
                let dec = format!("{}{}", if neg { "-" } else { "" }, m.to_radix(10));
                check_case(ti, &Lit::Quoted(dec), Ctx::Lone, &mut t);
            }
            t
        })
        .reduce(Tally::default, Tally::merge);
    rep.absorb(tl);

    // (3) odd quoted strings, wrong kinds and wrong forms, all targets
    let (fbare, fquoted) = float_texts();
    let wrong: Vec<Lit> = vec![
        Lit::Other("".into()),
        Lit::Other("(1)".into()),
        Lit::Other("()".into()),
        Lit::Other(" = true".into()),
        Lit::Other(" = false".into()),
        Lit::Other(" = 'c'".into()),
        Lit::Other(" = '\\n'".into()),
        Lit::Other(" = '😬'".into()),
        Lit::Other(" = b'c'".into()),
        Lit::Other(" = b\"bytes\"".into()),
        Lit::Other(" = r\"raw\"".into()),
        Lit::Other(" = r#\"ra\"w\"#".into()),
        Lit::Other(" = \"esc\\n\\t\\u{1F600}\\\\\"".into()),
        // strings are taken as they stand: nothing is trimmed, cleaned up or re-cased
        Lit::Other(" = \"a//b\"".into()),
        Lit::Other(" = \"a/./b\"".into()),
        Lit::Other(" = \"out/\"".into()),
        Lit::Other(" = \"out/.\"".into()),
        Lit::Other(" = \"//server/share\"".into()),
        Lit::Other(" = \"./x/../y\"".into()),
        Lit::Other(" = \" padded \"".into()),
        Lit::Other(" = \"C:\\\\dir\\\\\"".into()),
        Lit::Other(" = \"TRUE\"".into()),
        Lit::Other(" = \"Yes\"".into()),
        Lit::Other(" = \"on\"".into()),
        Lit::Other(" = yes".into()),
        Lit::Other(" = on".into()),
        Lit::Other(" = high".into()),
        Lit::Other(" = a::b".into()),
        Lit::Other(" = 1 + 2".into()),
        Lit::Other(" = [1]".into()),
        Lit::Other(" = (5)".into()),
        Lit::Other(" = -x".into()),
        Lit::Other(" = !true".into()),
        // an operator other than negation in front of a number is not a number
        Lit::Other(" = !5".into()),
        Lit::Other(" = *5".into()),
        Lit::Other(" = &5".into()),
        Lit::Other(" = !2.5".into()),
        Lit::Other(" = *2.5".into()),
        Lit::Other(" = !0".into()),
        Lit::Other(" = -(5)".into()),
        Lit::Other(" = !-5".into()),
        Lit::Other(" = -!5".into()),
        Lit::Other(" = -true".into()),
        Lit::Other(" = -'c'".into()),
        Lit::Other(" = -\"5\"".into()),
        Lit::Other(" = 5 as u8".into()),
        Lit::Other(" = 5 - 0".into()),
        Lit::BareInt("5".into()),
        Lit::BareInt("-5".into()),
        Lit::BareInt("0".into()),
        Lit::BareFloat("5.0".into()),
        Lit::BareFloat("-5.5".into()),
        Lit::BareFloat("1e3".into()),
    ];
    let mut misc: Vec<Lit> = wrong.clone();
    for q in QUOTED_ODD {
        misc.push(Lit::Quoted(q.to_string()));
    }
    for q in ["true", "false", "True", "TRUE", "1", "0", "yes", "t", " true", "x", "xy", "aa", "::", "😬", "😬😬", "ab", "aba", "é", "e\u{301}", "a\nb", "with \"quotes\"", "back\\slash", "/usr/bin", "", " "] {
        misc.push(Lit::Quoted(q.to_string()));
    }
    // quoted strings around the lengths where truncation / buffer thresholds sit, in 1-, 2-, 3- and
    // 4-byte characters (refused by every numeric target: with a span, never a panic)
    for n in [15usize, 16, 17, 31, 32, 33, 63, 64, 65, 127, 128, 129, 255, 256, 257] {
        for unit in ["x", "é", "名", "😬"] {
            misc.push(Lit::Quoted(unit.repeat(n)));
            misc.push(Lit::Quoted(format!("a{}", unit.repeat(n))));
        }
    }
    // long zero-padded spellings of small numbers: quoted (std accepts any number of leading
    // zeros) and bare
    for zeros in [10usize, 36, 37, 38, 39, 40, 41, 50, 100, 300] {
        for v in ["255", "127", "1", "0", "256", "65535"] {
            misc.push(Lit::Quoted(format!("{}{v}", "0".repeat(zeros))));
            misc.push(Lit::Quoted(format!("-{}{v}", "0".repeat(zeros))));
            misc.push(Lit::Quoted(format!("+{}{v}", "0".repeat(zeros))));
            misc.push(Lit::BareInt(format!("{}{v}", "0".repeat(zeros))));
            misc.push(Lit::BareInt(format!("-{}{v}", "0".repeat(zeros))));
        }
    }
    for f in &fbare {
        misc.push(Lit::BareFloat(f.clone()));
    }
    for f in &fquoted {
        misc.push(Lit::Quoted(f.clone()));
    }
    for f in &fbare {
        misc.push(Lit::Quoted(float_literal_to_std(f)));
    }
    let tl = tis
        .par_iter()
        .map(|ti| {
            let mut t = Tally::default();
            for l in &misc {
                // Lit::Other string/char tokens are only "expected" for their own kinds; for every
                // other target they are wrong-kind and must be rejected.
                for ctx in ctxs {
                    check_case(ti, l, ctx, &mut t);
                }
            }
            t
        })
        .reduce(Tally::default, Tally::merge);
    rep.absorb(tl);

    rep.rule = format!(
        "targets: 24 integer/NonZero types, f32, f64, bool, char, String, PathBuf; value placed alone, first and last in a list, each also wrapped in an invisible group (a macro-forwarded `$e:expr`). (1) every integer in [-{range}, {range}] bare and quoted for {} integer targets; (2) {} boundary magnitudes (2^k +- 2 up to 2^130, long digit strings) x sign x ~60 spellings (radix 2/8/10/16, underscores, 12 suffixes, leading zeros) for all 24; (3) {} other literals/forms (odd quoted strings, float grid incl. f32 rounding midpoints +- 1e-21, wrong kinds, word/list forms) for all 30 targets. Oracle: quoted = str::parse::<T>; bare int = independent bignum evaluation then str::parse::<T>; bare float = text minus underscores/suffix through str::parse. Non-trivial = a case the oracle says must be rejected (and was, with a span inside the item).",
        range_targets.len(),
        mags.len(),
        misc.len()
    );
    rep.assumptions = vec!["std str::parse is the specification of acceptance (per the statement)".into(), "syn's literal classification (e.g. `7f32` is an integer literal with suffix) is outside the alphabet".into()];
    rep.tally.samples.push(json!({"target": "i8", "form": "v = -0x80i8", "context": "ListFirst", "expected": "-128"}));
    rep.tally.samples.push(json!({"target": "NonZeroU8", "form": "v = \"0\"", "expected": "rejected, span inside the value"}));
    rep.require_counter("accepted");
    rep.require_counter("rejected");
    rep.require_counter("span_inside_value");
    rep.require(rep.tally.counters.get("generator_unparseable").is_none(), "generator produced unparseable attributes");
    rep.finish()
}
