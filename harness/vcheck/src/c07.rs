//! C07 (iii): every built-in conversion target x a menu of meta items in every form; only
//! "returns Ok or Err, never panics" is judged here.
use darling::util::{Callable, Flag, IdentString, Ignored, Override, PathList, SpannedValue, WithOriginal};
use darling::FromMeta;
use rayon::prelude::*;
use serde_json::json;
use std::cell::RefCell;
use std::collections::{BTreeMap, HashMap};
use std::rc::Rc;
use std::sync::Arc;
use vrt::{catch, Tally, Violation};

pub struct BTarget {
    pub name: &'static str,
    pub run: fn(&syn::Meta, Option<&darling::ast::NestedMeta>) -> Result<(u8, u8), String>,
}

/// Returns (from_meta outcome, from_nested_meta outcome) as 0 = Ok, 1 = Err; Err(msg) on panic.
fn run<T: FromMeta>(m: &syn::Meta, n: Option<&darling::ast::NestedMeta>) -> Result<(u8, u8), String> {
    catch(std::panic::AssertUnwindSafe(|| {
        let a = match T::from_meta(m) {
            Ok(_) => 0,
            Err(e) => {
                // rendering must not panic either
                let _ = e.to_string();
                let _ = e.clone().flatten().len();
                let _ = e.write_errors();
                1
            }
        };
        let b = match n {
            Some(n) => match T::from_nested_meta(n) {
                Ok(_) => 0,
                Err(e) => {
                    let _ = e.write_errors();
                    1
                }
            },
            None => 2,
        };
        let _ = T::from_none();
        let _ = T::from_word().map(|_| ()).map_err(|e| e.to_string());
        (a, b)
    }))
}

macro_rules! bt {
    ($v:ident; $($t:ty),* $(,)?) => { $( $v.push(BTarget { name: stringify!($t), run: run::<$t> }); )* };
}

pub fn targets() -> Vec<BTarget> {
    use std::num::*;
    let mut v = vec![];
    bt!(v; (), bool, std::sync::atomic::AtomicBool, char, String, std::path::PathBuf,
        u8, u16, u32, u64, u128, usize, i8, i16, i32, i64, i128, isize,
        NonZeroU8, NonZeroU16, NonZeroU32, NonZeroU64, NonZeroU128, NonZeroUsize, NonZeroI8, NonZeroI16, NonZeroI32, NonZeroI64, NonZeroI128, NonZeroIsize,
        f32, f64,
        syn::Expr, syn::Path, syn::Ident, syn::ExprArray, syn::ExprPath, syn::ExprRange,
        syn::Type, syn::TypeArray, syn::TypeBareFn, syn::TypeGroup, syn::TypeImplTrait, syn::TypeInfer, syn::TypeMacro, syn::TypeNever,
        syn::TypeParam, syn::TypeParen, syn::TypePath, syn::TypePtr, syn::TypeReference, syn::TypeSlice, syn::TypeTraitObject, syn::TypeTuple,
        syn::Visibility, syn::WhereClause, Vec<syn::WherePredicate>,
        syn::Lit, syn::LitInt, syn::LitFloat, syn::LitStr, syn::LitByte, syn::LitByteStr, syn::LitChar, syn::LitBool, proc_macro2::Literal,
        Vec<syn::LitInt>, Vec<syn::LitStr>, Vec<syn::LitBool>, Vec<syn::LitChar>, Vec<syn::LitFloat>, Vec<syn::LitByte>, Vec<syn::LitByteStr>,
        Vec<u8>, Vec<u16>, Vec<u32>, Vec<u64>, Vec<usize>,
        syn::Meta, PathList, Callable, IdentString, Flag, Ignored,
        Override<u8>, Override<String>, Override<syn::Path>, Override<PathList>, Override<Flag>,
        SpannedValue<u8>, SpannedValue<bool>, SpannedValue<Flag>, SpannedValue<PathList>, SpannedValue<char>,
        WithOriginal<u8, syn::Meta>, WithOriginal<bool, syn::Meta>,
        Option<u8>, Option<char>, Option<Flag>, Option<Option<u8>>,
        Box<u8>, Rc<String>, Arc<char>, RefCell<bool>, Box<Flag>, Box<char>,
        darling::Result<u8>, darling::Result<char>, Result<u8, syn::Meta>, Result<Flag, syn::Meta>,
        HashMap<String, u8>, HashMap<syn::Ident, bool>, HashMap<syn::Path, char>, BTreeMap<String, String>, BTreeMap<syn::Ident, Flag>,
        HashMap<String, HashMap<String, char>>,
        syn::punctuated::Punctuated<syn::Path, syn::Token![,]>,
    );
    v
}

pub fn menu() -> Vec<String> {
    let deep = {
        let mut t = String::from("q");
        for _ in 0..64 {
            t = format!("q({t})");
        }
        t
    };
    let mut v: Vec<String> = [
        "v", "v()", "v(a)", "v(a, b)", "v(a = 1)", "v(a b)", "v(,)", "v(=>)", "v(\"s\")", "v(a(b c))", "v(1, 2)", "v(a = \"\")", "v(a = 'c', a = 'd')",
        "v = true", "v = false", "v = \"\"", "v = \"x\"", "v = \"xy\"", "v = \"1 +\"", "v = \"(\"", "v = \"a::b\"", "v = \"[1, 2]\"", "v = \"'a\"", "v = \"where T: X\"",
        "v = 'c'", "v = b'c'", "v = b\"bs\"", "v = 0", "v = 1", "v = -1", "v = 255", "v = 256", "v = 1234567890123456789012345678901234567890",
        "v = -1234567890123456789012345678901234567890", "v = 1.5", "v = 1e400", "v = -1.5e-400", "v = 5u8", "v = 5f32",
        "v = a::b", "v = ::a", "v = a::<b>", "v = 1 + 2", "v = [1, 2]", "v = [a, 1]", "v = [-1]", "v = 0..5", "v = ..", "v = |x| x", "v = (1, 2)", "v = -x", "v = !true",
        "v = {}", "v = unsafe { 1 }", "v = r#type", "v = m!(x)", "v = &x", "v = x as u8", "v = \"😬\"", "v = \"\\u{0}\"", "v = \"x²\"", "v = \"half½\"", "v = \"item①\"", "v = \"\\u{345}x\"", "v = \"é\"", "v = \"a b\"", "v = \"r#x\"", "v = \"'a\"", "v = \"_\"", "v = \"1x\"",
        "v = \"x-y\"", "v = \"x.y\"", "v = \"𝒳\"", "v = \"a\\u{200d}b\"", "v = \"fn\"", "v = \"Self\"", "v = \"$x\"", "v = \"#\"", "v = \"a::\"", "v = \"::\"", "v = \"<\"", "v = \"-\"", "v = \"- 1\"", "v = \"--1\"", "v = pub", "v = \"pub(crate)\"",
        // byte strings / bytes that are not UTF-8, C strings, NUL and lone surrogates-by-escape
        "v = b\"\\xff\"", "v = b\"caf\\xe9\"", "v = b'\\xff'", "v = b\"\"", "v = c\"x\"", "v = c\"\\xff\"", "v = \"\\0\"", "v = '\\0'", "v = br\"raw\"", "v = b\"\\xf0\\x28\\x8c\\x28\"",
    ]
    .iter()
    .map(|s| s.to_string())
    .collect();
    // overflowing negative floats (also as a non-final array element), strings around the lengths
    // at which buffers / truncation thresholds sit, in ASCII and in 2-, 3- and 4-byte characters
    for x in ["v = -1e999", "v = -1.0e400", "v = [1.0, -1e999, 2.0]", "v = [-1e999]", "v = -1e-999", "v = 1e999"] {
        v.push(x.to_string());
    }
    // array-repeat and range forms with lengths at the limits of usize
    for x in ["v = [0; 18446744073709551615]", "v = \"[9; 18446744073709551615]\"", "v = [0; 4]", "v = [1, 2; 3]", "v = [0; 18446744073709551616]", "v = 0..18446744073709551615", "v = [0; -1]"] {
        v.push(x.to_string());
    }
    // floats whose exponent does not fit anything (never expanded digit by digit)
    for x in ["v = 1e9223372036854775808", "v = 2.5e18446744073709551615", "v = 1e-9223372036854775808", "v = 1e18446744073709551616", "v = [1e9223372036854775808]", "v = \"1e9223372036854775808\"", "v = 1e6", "v = 4.0", "v = 2.5e3"] {
        v.push(x.to_string());
    }
    v.push(format!("v = -{}.0", "9".repeat(320)));
    v.push(format!("v = {}", "9".repeat(320)));
    for n in [15usize, 16, 17, 21, 22, 31, 32, 33, 63, 64, 65, 127, 128, 129, 255, 256, 257] {
        for unit in ["x", "ü", "名", "😬"] {
            v.push(format!("v = \"{}\"", unit.repeat(n)));
            v.push(format!("v = \"a{}\"", unit.repeat(n)));
        }
    }
    v.push(format!("v({deep})"));
    v.push(format!("v({})", (0..200).map(|i| format!("k{i} = {i}")).collect::<Vec<_>>().join(", ")));
    v
}

pub fn sweep() -> Tally {
    let ts = targets();
    let items = menu();
    ts.par_iter()
        .map(|bt| {
            let mut t = Tally::default();
            for it in &items {
                for ctx in 0..3 {
                    // ctx 2: the lone item with its value inside an invisible group
                    let src = if ctx != 1 { format!("#[{it}] struct S;") } else { format!("#[w({it}, z)] struct S;") };
                    t.evaluations += 1;
                    t.hit("builtin_inputs");
                    let di: syn::DeriveInput = match syn::parse_str(&src) {
                        Ok(d) => d,
                        Err(_) => {
                            t.hit("builtin_not_an_attribute");
                            continue;
                        }
                    };
                    let (meta, nested) = if ctx == 2 {
                        match di.attrs[0].meta.clone() {
                            syn::Meta::NameValue(mut nv) => {
                                nv.value = syn::Expr::Group(syn::ExprGroup { attrs: vec![], group_token: Default::default(), expr: Box::new(nv.value) });
                                (syn::Meta::NameValue(nv), None)
                            }
                            _ => continue,
                        }
                    } else if ctx == 0 {
                        (di.attrs[0].meta.clone(), None)
                    } else {
                        let list = di.attrs[0].meta.require_list().unwrap();
                        match darling::ast::NestedMeta::parse_meta_list(list.tokens.clone()) {
                            Ok(v) => match &v[0] {
                                darling::ast::NestedMeta::Meta(m) => (m.clone(), Some(v[0].clone())),
                                _ => continue,
                            },
                            Err(_) => {
                                t.hit("builtin_list_rejected");
                                continue;
                            }
                        }
                    };
                    match (bt.run)(&meta, nested.as_ref()) {
                        Ok((a, _)) => {
                            if a == 1 {
                                t.nontrivial += 1;
                                t.hit("builtin_err");
                            } else {
                                t.hit("builtin_ok");
                            }
                        }
                        Err(p) => t.violate(Violation {
                            key: format!("C07 builtin target={} src=`{src}` :: panicked: {p}", bt.name),
                            what: format!("{} <- `{src}`: panicked: {p}", bt.name),
                            case: json!({"engine": "builtin", "target": bt.name, "src": src, "ctx": ctx}),
                            detail: json!({}),
                        }),
                    }
                    vrt::spans::reset();
                }
            }
            t
        })
        .reduce(Tally::default, Tally::merge)
}

pub fn replay(case: &serde_json::Value) -> bool {
    let ts = targets();
    let bt = ts.iter().find(|t| t.name == case["target"].as_str().unwrap()).unwrap();
    let src = case["src"].as_str().unwrap();
    let di: syn::DeriveInput = syn::parse_str(src).unwrap();
    let meta = if src.starts_with("#[w(") {
        let list = di.attrs[0].meta.require_list().unwrap();
        match &darling::ast::NestedMeta::parse_meta_list(list.tokens.clone()).unwrap()[0] {
            darling::ast::NestedMeta::Meta(m) => m.clone(),
            _ => unreachable!(),
        }
    } else {
        match (di.attrs[0].meta.clone(), case["ctx"].as_u64()) {
            (syn::Meta::NameValue(mut nv), Some(2)) => {
                nv.value = syn::Expr::Group(syn::ExprGroup { attrs: vec![], group_token: Default::default(), expr: Box::new(nv.value) });
                syn::Meta::NameValue(nv)
            }
            (m, _) => m,
        }
    };
    match (bt.run)(&meta, None) {
        Ok(r) => {
            println!("replay {} <- `{src}`: returned {:?}", bt.name, r);
            true
        }
        Err(p) => {
            println!("replay {} <- `{src}`: PANIC {p}", bt.name);
            false
        }
    }
}
