//! C05 — Accumulator. Exhaustive exploration of operation histories on the real
//! `darling::error::Accumulator`, stepped alongside a `Vec` reference model.
use crate::Args;
use darling_core::error::Accumulator;
use darling_core::Error;
use serde::{Deserialize, Serialize};
use serde_json::json;
use stateright::{Checker, Model, Property};
use std::sync::atomic::{AtomicU64, Ordering};
use std::sync::Mutex;
use vrt::{catch, Report, Tally, Tier, Violation};

#[derive(Clone, Copy, Debug, PartialEq, Eq, Hash, Serialize, Deserialize, PartialOrd, Ord)]
pub enum Op {
    HandleOk,
    Push,
    HandleErr,
    HandleInOk,
    HandleInErr,
    Extend0,
    Extend1,
    Extend2,
    PushBundle,
    /// handle(Err(bundle of two, located with .at("outer")))
    HandleErrBundle,
    /// extend from an iterator whose size_hint lower bound is 0 (a `filter`)
    ExtendLazy1,
    /// extend from `Error::into_iter()` of a bundle of two
    ExtendErrIter,
    /// push an error identical (message, span, location) to the one recorded last
    PushDup,
    Checkpoint,
}

pub const OPS: [Op; 14] = [
    Op::HandleOk,
    Op::Push,
    Op::HandleErr,
    Op::HandleInOk,
    Op::HandleInErr,
    Op::Extend0,
    Op::Extend1,
    Op::Extend2,
    Op::PushBundle,
    Op::HandleErrBundle,
    Op::ExtendLazy1,
    Op::ExtendErrIter,
    Op::PushDup,
    Op::Checkpoint,
];

#[derive(Clone, Copy, Debug, PartialEq, Eq, Hash, Serialize, Deserialize)]
pub enum Term {
    Finish,
    FinishWith,
    IntoInner,
    Drop,
    DropUnwinding,
    /// finish, then the returned error's count / flatten are inspected
    FinishLen,
}

pub const TERMS: [Term; 6] = [Term::Finish, Term::FinishWith, Term::IntoInner, Term::Drop, Term::DropUnwinding, Term::FinishLen];

/// Reference model: the recorded entries, each a list of leaf ids (1 = plain error, 2 = bundle).
#[derive(Clone, Debug, Default, PartialEq, Eq, Hash)]
pub struct Ref {
    pub recorded: Vec<Vec<u32>>,
    pub next: u32,
    /// Some(errors) once a checkpoint failed: the history is finished.
    pub failed_checkpoint: Option<Vec<Vec<u32>>>,
}

fn leaf(id: u32) -> Error {
    // alternate kinds and locations so that Display distinguishes every recorded error
    match id % 3 {
        0 => Error::custom(format!("e{id}")),
        // every third error carries an explicit span (spanless and spanned errors interleave)
        1 => Error::unknown_field(&format!("e{id}")).at("loc").with_span(&proc_macro2::Span::call_site()),
        _ => Error::missing_field(&format!("e{id}")),
    }
}

/// A recorded entry: one id = plain error; several = bundle; a leading `LOCATED` marks a
/// bundle that was given `.at("outer")` after bundling.
const LOCATED: u32 = u32::MAX;

fn entry(ids: &[u32]) -> Error {
    if ids[0] == LOCATED {
        Error::multiple(ids[1..].iter().map(|i| leaf(*i)).collect()).at("outer")
    } else if ids.len() == 1 {
        leaf(ids[0])
    } else {
        Error::multiple(ids.iter().map(|i| leaf(*i)).collect())
    }
}

fn leaves_of(ids: &[u32]) -> Vec<Error> {
    entry(ids).flatten().into_iter().collect()
}

fn show(e: &Error) -> String {
    format!("{}|len={}|spanned={}", e, e.len(), e.has_span())
}

impl Ref {
    fn fresh(&mut self) -> u32 {
        self.next += 1;
        self.next - 1
    }
    /// Applies `op` to the model and to the real accumulator; returns a description of the
    /// first disagreement in a return value, if any. `acc` is None after a failed checkpoint.
    pub fn step(&mut self, acc: &mut Option<Accumulator>, op: Op) -> Result<(), String> {
        let a = acc.as_mut().expect("stepping a finished history");
        match op {
            Op::HandleOk => {
                let r = a.handle(Ok::<u32, Error>(41));
                if r != Some(41) {
                    return Err(format!("handle(Ok(41)) returned {r:?}"));
                }
            }
            Op::HandleInOk => {
                let mut calls = 0;
                let r = a.handle_in(|| {
                    calls += 1;
                    Ok::<u32, Error>(42)
                });
                if r != Some(42) || calls != 1 {
                    return Err(format!("handle_in(Ok(42)) returned {r:?} after {calls} calls"));
                }
            }
            Op::Push => {
                let id = self.fresh();
                a.push(leaf(id));
                self.recorded.push(vec![id]);
            }
            Op::HandleErr => {
                let id = self.fresh();
                let r = a.handle(Err::<u32, Error>(leaf(id)));
                self.recorded.push(vec![id]);
                if r.is_some() {
                    return Err(format!("handle(Err) returned {r:?}"));
                }
            }
            Op::HandleInErr => {
                let id = self.fresh();
                let mut calls = 0;
                let r = a.handle_in(|| {
                    calls += 1;
                    Err::<u32, Error>(leaf(id))
                });
                self.recorded.push(vec![id]);
                if r.is_some() || calls != 1 {
                    return Err(format!("handle_in(Err) returned {r:?} after {calls} calls"));
                }
            }
            Op::Extend0 => a.extend(Vec::<Error>::new()),
            Op::Extend1 => {
                let id = self.fresh();
                a.extend(vec![leaf(id)]);
                self.recorded.push(vec![id]);
            }
            Op::Extend2 => {
                let (i, j) = (self.fresh(), self.fresh());
                a.extend(vec![leaf(i), leaf(j)]);
                self.recorded.push(vec![i]);
                self.recorded.push(vec![j]);
            }
            Op::PushBundle => {
                let (i, j) = (self.fresh(), self.fresh());
                a.push(entry(&[i, j]));
                self.recorded.push(vec![i, j]);
            }
            Op::HandleErrBundle => {
                let (i, j) = (self.fresh(), self.fresh());
                let r = a.handle(Err::<u32, Error>(entry(&[LOCATED, i, j])));
                self.recorded.push(vec![LOCATED, i, j]);
                if r.is_some() {
                    return Err(format!("handle(Err(bundle)) returned {r:?}"));
                }
            }
            Op::ExtendLazy1 => {
                let id = self.fresh();
                a.extend(vec![leaf(id)].into_iter().filter(|_| true));
                self.recorded.push(vec![id]);
            }
            Op::ExtendErrIter => {
                let (i, j) = (self.fresh(), self.fresh());
                a.extend(entry(&[i, j]));
                self.recorded.push(vec![i]);
                self.recorded.push(vec![j]);
            }
            Op::PushDup => match self.recorded.last().cloned() {
                Some(last) => {
                    a.push(entry(&last));
                    self.recorded.push(last);
                }
                None => {
                    let id = self.fresh();
                    a.push(leaf(id));
                    self.recorded.push(vec![id]);
                }
            },
            Op::Checkpoint => {
                let taken = acc.take().unwrap();
                match taken.checkpoint() {
                    Ok(fresh) => {
                        *acc = Some(fresh);
                        if !self.recorded.is_empty() {
                            return Err(format!("checkpoint succeeded although {} errors were recorded", self.recorded.len()));
                        }
                    }
                    Err(e) => {
                        if self.recorded.is_empty() {
                            return Err(format!("checkpoint failed on an empty accumulator: {e}"));
                        }
                        let exp = self.recorded.clone();
                        self.failed_checkpoint = Some(exp.clone());
                        return compare_bundle(e, &exp).map_err(|m| format!("checkpoint error: {m}"));
                    }
                }
            }
        }
        Ok(())
    }
}

/// `e` must bundle exactly `exp` (recording order): one-level children equal to the recorded
/// errors; a single recorded error is returned as itself.
fn compare_bundle(e: Error, exp: &[Vec<u32>]) -> Result<(), String> {
    let leaves: usize = exp.iter().map(|x| leaves_of(x).len()).sum();
    if e.len() != leaves {
        return Err(format!("len() = {} but {} leaf errors were recorded", e.len(), leaves));
    }
    // flattened leaves: text and spannedness as recorded (a bundle built by the accumulator has
    // no span of its own to hand down to span-less members)
    let flat: Vec<String> = e.clone().flatten().into_iter().map(|x| show(&x)).collect();
    let exp_flat: Vec<String> = exp.iter().flat_map(|ids| entry(ids).flatten().into_iter().collect::<Vec<_>>()).map(|x| show(&x)).collect();
    if flat != exp_flat {
        return Err(format!("flattened leaves {flat:?} != recorded {exp_flat:?}"));
    }
    if exp.len() > 1 && e.has_span() {
        return Err("the bundle of the recorded errors carries a span of its own".into());
    }
    let kids: Vec<String> = e.into_iter().map(|x| show(&x)).collect();
    let exp_kids: Vec<String> = if exp.len() == 1 {
        // a bundle of one is that one; iterating a bundle yields its members
        entry(&exp[0]).into_iter().map(|x| show(&x)).collect()
    } else {
        exp.iter().map(|ids| show(&entry(ids))).collect()
    };
    if kids != exp_kids {
        return Err(format!("children {kids:?} != recorded {exp_kids:?}"));
    }
    Ok(())
}

/// Replays `hist` on a fresh real accumulator and model; Err = disagreement along the way.
thread_local! {
    /// Which public constructor the replay uses: `Error::accumulator()` or `Accumulator::default()`.
    static DEFAULT_CTOR: std::cell::Cell<bool> = const { std::cell::Cell::new(false) };
}

pub fn replay(hist: &[Op]) -> (Ref, Option<Accumulator>, Result<(), String>) {
    let mut m = Ref::default();
    let mut acc = Some(if DEFAULT_CTOR.with(|c| c.get()) { Accumulator::default() } else { Error::accumulator() });
    for (i, op) in hist.iter().enumerate() {
        if let Err(e) = m.step(&mut acc, *op) {
            // defuse before returning so the drop guard cannot fire in the harness
            if let Some(a) = acc.take() {
                let _ = a.into_inner();
            }
            return (m, None, Err(format!("step {i} ({op:?}): {e}")));
        }
        if m.failed_checkpoint.is_some() {
            debug_assert!(acc.is_none());
            return (m, None, Ok(()));
        }
    }
    (m, acc, Ok(()))
}

/// One terminal probe on a fresh replay of `hist`.
pub fn probe(hist: &[Op], term: Term) -> Result<(), String> {
    let (m, acc, r) = replay(hist);
    r?;
    let Some(acc) = acc else { return Ok(()) };
    let exp = m.recorded.clone();
    match term {
        Term::Finish => match acc.finish() {
            Ok(()) if exp.is_empty() => Ok(()),
            Ok(()) => Err(format!("finish() = Ok although {} errors were recorded", exp.len())),
            Err(e) if exp.is_empty() => Err(format!("finish() = Err({e}) although nothing was recorded")),
            Err(e) => compare_bundle(e, &exp).map_err(|m| format!("finish(): {m}")),
        },
        Term::FinishWith => match acc.finish_with(77u8) {
            Ok(77) if exp.is_empty() => Ok(()),
            Ok(v) => Err(format!("finish_with(77) = Ok({v}) with {} errors recorded", exp.len())),
            Err(e) if exp.is_empty() => Err(format!("finish_with = Err({e}) although nothing was recorded")),
            Err(e) => compare_bundle(e, &exp).map_err(|m| format!("finish_with(): {m}")),
        },
        Term::FinishLen => match acc.finish() {
            Ok(()) => Ok(()),
            Err(e) => {
                let twice: Vec<String> = e.clone().flatten().flatten().into_iter().map(|x| x.to_string()).collect();
                let once: Vec<String> = e.flatten().into_iter().map(|x| x.to_string()).collect();
                if once != twice {
                    return Err("flatten is not idempotent on the finished error".into());
                }
                Ok(())
            }
        },
        Term::IntoInner => {
            let v = match catch(std::panic::AssertUnwindSafe(move || acc.into_inner())) {
                Ok(v) => v,
                Err(p) => return Err(format!("into_inner panicked: {p}")),
            };
            let got: Vec<String> = v.iter().map(show).collect();
            let want: Vec<String> = exp.iter().map(|ids| show(&entry(ids))).collect();
            if got != want {
                return Err(format!("into_inner() = {got:?}, recorded {want:?}"));
            }
            Ok(())
        }
        Term::Drop => {
            let n = exp.len();
            let leaves: usize = exp.iter().map(|x| leaves_of(x).len()).sum();
            match catch(std::panic::AssertUnwindSafe(move || drop(acc))) {
                Ok(()) => Err(format!("dropping an unfinished accumulator holding {n} errors did not panic")),
                Err(msg) => {
                    if !msg.contains("dropped without being finished") {
                        return Err(format!("drop panicked with an unrelated message: {msg}"));
                    }
                    if n > 0 {
                        let ok = msg.contains(&format!("{n} errors were lost")) || msg.contains(&format!("{leaves} errors were lost"));
                        if !ok {
                            return Err(format!("drop message does not state that {n} errors were lost: {msg}"));
                        }
                    } else if msg.contains("were lost") {
                        return Err(format!("drop of an empty accumulator claims errors were lost: {msg}"));
                    }
                    Ok(())
                }
            }
        }
        Term::DropUnwinding => {
            // Only reached in the child process (a wrong implementation aborts).
            match catch(std::panic::AssertUnwindSafe(move || {
                let _guard = acc;
                std::panic::panic_any(String::from("ORIGINAL-PAYLOAD"));
            })) {
                Ok(()) => Err("panic was swallowed".into()),
                Err(msg) if msg == "ORIGINAL-PAYLOAD" => Ok(()),
                Err(msg) => Err(format!("unwinding past an unfinished accumulator replaced the payload: {msg}")),
            }
        }
    }
}

/// The same probe (replay + terminal operation), executed from a destructor while the thread is
/// unwinding from an unrelated panic: finishing must report what was recorded there too.
pub fn probe_unwinding(hist: &[Op], term: Term) -> Result<(), String> {
    struct Guard<'a>(&'a [Op], Term, &'a std::cell::RefCell<Option<(bool, Result<(), String>)>>);
    impl Drop for Guard<'_> {
        fn drop(&mut self) {
            let r = catch(std::panic::AssertUnwindSafe(|| probe(self.0, self.1))).unwrap_or_else(|p| Err(format!("panicked: {p}")));
            *self.2.borrow_mut() = Some((std::thread::panicking(), r));
        }
    }
    let slot = std::cell::RefCell::new(None);
    let outcome = catch(std::panic::AssertUnwindSafe(|| {
        let _g = Guard(hist, term, &slot);
        std::panic::panic_any(String::from("ORIGINAL-PAYLOAD"));
    }));
    match outcome {
        Err(msg) if msg == "ORIGINAL-PAYLOAD" => {}
        Err(msg) => return Err(format!("payload replaced: {msg}")),
        Ok(()) => return Err("panic was swallowed".into()),
    }
    match slot.into_inner() {
        Some((true, r)) => r.map_err(|m| format!("while the thread is unwinding: {m}")),
        Some((false, _)) => vrt::machinery("guard did not run during unwinding"),
        None => vrt::machinery("guard did not run"),
    }
}

fn violation(hist: &[Op], term: Option<Term>, msg: String) -> Violation {
    Violation {
        key: format!("C05 hist={hist:?} term={term:?} :: {msg}"),
        what: msg.clone(),
        case: json!({"hist": hist, "term": term}),
        detail: json!({"message": msg}),
    }
}

/// All checks for one history (every terminal probe except drop-during-unwind).
pub fn check_history(hist: &[Op], t: &mut Tally) {
    // both public constructors give the same armed, empty accumulator (the second one for
    // histories up to length 4)
    for default_ctor in [false, true] {
        if default_ctor && hist.len() > 4 {
            continue;
        }
        for term in TERMS {
            if term == Term::DropUnwinding {
                continue;
            }
            t.evaluations += 1;
            t.traces += 1;
            DEFAULT_CTOR.with(|c| c.set(default_ctor));
            let r = catch(std::panic::AssertUnwindSafe(|| probe(hist, term)));
            DEFAULT_CTOR.with(|c| c.set(false));
            let tag = |m: String| if default_ctor { format!("starting from Accumulator::default(): {m}") } else { m };
            match r {
                Ok(Ok(())) => {}
                Ok(Err(m)) => {
                    let mut v = violation(hist, Some(term), tag(m));
                    v.case["default_ctor"] = json!(default_ctor);
                    t.violate(v)
                }
                Err(p) => {
                    let mut v = violation(hist, Some(term), tag(format!("unexpected panic: {p}")));
                    v.case["default_ctor"] = json!(default_ctor);
                    t.violate(v)
                }
            }
        }
    }
}

// ---------------------------------------------------------------- stateright model

#[derive(Clone, Debug, PartialEq, Eq, Hash)]
pub struct HState {
    hist: Vec<Op>,
    done: bool,
}

struct HistModel {
    depth: usize,
    transitions: AtomicU64,
    tally: Mutex<Tally>,
}

impl Model for HistModel {
    type State = HState;
    type Action = Op;
    fn init_states(&self) -> Vec<HState> {
        vec![HState { hist: vec![], done: false }]
    }
    fn actions(&self, s: &HState, out: &mut Vec<Op>) {
        if !s.done && s.hist.len() < self.depth {
            out.extend(OPS);
        }
    }
    fn next_state(&self, s: &HState, a: Op) -> Option<HState> {
        self.transitions.fetch_add(1, Ordering::Relaxed);
        let mut hist = s.hist.clone();
        hist.push(a);
        // model-side: does this history end in a failed checkpoint?
        let errs = hist.iter().any(|o| !matches!(o, Op::HandleOk | Op::HandleInOk | Op::Extend0 | Op::Checkpoint));
        let done = a == Op::Checkpoint && errs_before(&hist);
        let _ = errs;
        Some(HState { hist, done })
    }
    fn properties(&self) -> Vec<Property<Self>> {
        vec![Property::always("impl agrees with the reference accumulator", |m: &HistModel, s: &HState| {
            let mut t = Tally::default();
            check_history(&s.hist, &mut t);
            let rec = s.hist.iter().filter(|o| !matches!(o, Op::HandleOk | Op::HandleInOk | Op::Extend0 | Op::Checkpoint)).count();
            if rec > 0 {
                t.nontrivial += 1;
            }
            t.class(&format!("recorded={}{}", rec.min(4), if s.done { " checkpoint-failed" } else { "" }));
            let mut g = m.tally.lock().unwrap();
            let cur = std::mem::take(&mut *g);
            *g = cur.merge(t);
            true
        })]
    }
}

fn errs_before(hist: &[Op]) -> bool {
    // true if, at the final Checkpoint, something is recorded since the last successful checkpoint
    let mut rec = 0;
    for (i, o) in hist.iter().enumerate() {
        match o {
            Op::HandleOk | Op::HandleInOk | Op::Extend0 => {}
            Op::Checkpoint => {
                if i + 1 == hist.len() {
                    return rec > 0;
                }
            }
            _ => rec += 1,
        }
    }
    false
}

pub fn main(args: &Args) {
    if let Some(p) = &args.replay {
        let case = crate::load_case(p);
        if case["engine"] == "several" {
            let mut t = Tally::default();
            several_accumulators(&mut t);
            for v in &t.violations {
                println!("replay: {}", v.what);
            }
            std::process::exit(if t.violations.is_empty() { 0 } else { 1 });
        }
        let hist: Vec<Op> = serde_json::from_value(case["hist"].clone()).unwrap();
        let term: Option<Term> = serde_json::from_value(case["term"].clone()).unwrap();
        let terms: Vec<Term> = term.map(|t| vec![t]).unwrap_or_else(|| TERMS.to_vec());
        DEFAULT_CTOR.with(|c| c.set(case["default_ctor"].as_bool().unwrap_or(false)));
        let mut bad = false;
        for t in terms {
            let unwinding = case["unwinding"].as_bool().unwrap_or(false) && t != Term::DropUnwinding;
            match catch(std::panic::AssertUnwindSafe(|| if unwinding { probe_unwinding(&hist, t) } else { probe(&hist, t) })) {
                Ok(Ok(())) => println!("replay {hist:?} {t:?}: ok"),
                Ok(Err(m)) => {
                    bad = true;
                    println!("replay {hist:?} {t:?}: DISAGREES: {m}")
                }
                Err(p) => {
                    bad = true;
                    println!("replay {hist:?} {t:?}: PANIC {p}")
                }
            }
        }
        std::process::exit(if bad { 1 } else { 0 });
    }
    let mut rep = Report::new("C05", args.tier, "model_checking");
    let depth = args.tier.pick(5, 6);
    let model = HistModel { depth, transitions: AtomicU64::new(0), tally: Mutex::new(Tally::default()) };
    let checker = model.checker().threads(16).spawn_bfs().join();
    let states = checker.unique_state_count() as u64;
    let max_depth = checker.max_depth();
    let m = checker.model();
    let mut t = std::mem::take(&mut *m.tally.lock().unwrap());
    t.states = states;
    t.transitions = m.transitions.load(Ordering::Relaxed);
    rep.absorb(t);
    rep.set("stateright_unique_states", json!(states));
    rep.set("stateright_max_depth", json!(max_depth));
    rep.set("history_depth_bound", json!(depth));

    // Deeper, stateless DFS over histories (no state storage): thorough only.
    let deep = args.tier.pick(0usize, 7);
    if deep > depth {
        use rayon::prelude::*;
        // shard on the first three operations
        let prefixes: Vec<Vec<Op>> = OPS.iter().flat_map(|a| OPS.iter().flat_map(move |b| OPS.iter().map(move |c| vec![*a, *b, *c]))).collect();
        let tl = prefixes
            .par_iter()
            .map(|p| {
                let mut t = Tally::default();
                dfs(p.clone(), deep, depth, &mut t);
                t
            })
            .reduce(Tally::default, Tally::merge);
        rep.set("dfs_depth_bound", json!(deep));
        rep.set("dfs_histories", json!(tl.states));
        rep.absorb(tl);
    }

    // Long histories: every cycle of one or two operations repeated up to lengths around the sizes
    // at which small buffers and counters change regime (exhaustive over the cycles, not over all
    // histories of that length)
    {
        use rayon::prelude::*;
        let lens = [8usize, 9, 16, 17, 32, 33, 64, 65, 130];
        let mut cycles: Vec<Vec<Op>> = OPS.iter().map(|a| vec![*a]).collect();
        for a in OPS {
            for b in OPS {
                if a != b {
                    cycles.push(vec![a, b]);
                }
            }
        }
        let tl = cycles
            .par_iter()
            .map(|cy| {
                let mut t = Tally::default();
                for n in lens {
                    let mut h: Vec<Op> = (0..n).map(|i| cy[i % cy.len()]).collect();
                    // a failed checkpoint ends a history: cut after the first one that fails
                    if let Some(p) = (0..h.len()).find(|p| h[*p] == Op::Checkpoint && errs_before(&h[..=*p])) {
                        h.truncate(p + 1);
                    }
                    check_history(&h, &mut t);
                    t.states += 1;
                    t.transitions += 1;
                    t.nontrivial += 1;
                }
                t
            })
            .reduce(Tally::default, Tally::merge);
        rep.set("long_histories", json!(tl.states));
        rep.absorb(tl);
    }
    // two and three accumulators alive at once, every interleaving of their lives
    {
        let mut tl = Tally::default();
        several_accumulators(&mut tl);
        rep.set("several_accumulators_interleavings", json!(tl.states));
        rep.absorb(tl);
    }
    // drop-during-unwind in a child process (a wrong implementation aborts the process)
    let child_depth = args.tier.pick(4usize, 5);
    unwind_sweep(&mut rep, child_depth);
    // the drop message must not depend on the build having debug assertions
    nodebug_drop_sweep(&mut rep, args.tier.pick(3usize, 4));

    rep.rule = format!(
        "every history over {} accumulator operations up to length {} (stateright BFS, one state per history), each followed by every terminal operation (finish, finish_with, into_inner, drop, inspect) on a fresh replay of the real Accumulator, compared with a Vec reference; every 1- and 2-operation cycle repeated to lengths 8..130; drop-during-unwind, and every finishing operation executed from a destructor during an unrelated unwind, for every history up to length {} in a child process; every interleaving of the lives (create, 0..2 pushes, then drop / finish / into_inner) of two accumulators, and of three with the third short, on one thread: each answers for its own record alone; non-trivial = history that records at least one error",
        OPS.len(), depth.max(deep), child_depth
    );
    rep.assumptions = vec!["Error Display text distinguishes the recorded errors (ids are embedded in the messages)".into(), "panic=unwind build".into()];
    rep.tally.samples.push(json!({"history": ["Push", "HandleOk", "PushBundle", "Checkpoint"], "expect": "checkpoint fails with [e0, bundle(e1,e2)] in that order; len()=3"}));
    rep.require(rep.tally.outcome_classes.len() >= 6, "fewer than 6 distinct outcome classes");
    rep.require(rep.tally.states as usize >= 1000, "state space suspiciously small");
    rep.finish()
}

// ------------------------------------------------------------------ several accumulators alive at once

/// One accumulator's life: created, `pushes` errors pushed, then ended.
#[derive(Clone, Copy, Debug, PartialEq)]
enum End {
    Drop,
    Finish,
    IntoInner,
}

/// Every interleaving of the lives of two (and, structurally, three) accumulators on one thread:
/// each one answers for what was recorded into it alone - in particular an unfinished one panics
/// when dropped whatever happened to the others before (another one's panic having been caught,
/// another one still alive, another one created since).
fn several_accumulators(t: &mut Tally) {
    let scripts: Vec<(usize, End)> = (0..3usize).flat_map(|k| [End::Drop, End::Finish, End::IntoInner].into_iter().map(move |e| (k, e))).collect();
    // a life has k + 2 steps: create, k pushes, end
    let run = |lives: &[(usize, End)], order: &[usize], t: &mut Tally| {
        let label = format!("lives {lives:?} interleaved as {order:?}");
        let mut accs: Vec<Option<Accumulator>> = lives.iter().map(|_| None).collect();
        let mut pos: Vec<usize> = vec![0; lives.len()];
        let mut complaints: Vec<String> = vec![];
        for &who in order {
            let (k, end) = lives[who];
            let step = pos[who];
            pos[who] += 1;
            if step == 0 {
                accs[who] = Some(if who % 2 == 0 { Error::accumulator() } else { Accumulator::default() });
            } else if step <= k {
                accs[who].as_mut().unwrap().push(leaf((who * 10 + step) as u32));
            } else {
                let acc = accs[who].take().unwrap();
                match end {
                    End::Drop => match catch(std::panic::AssertUnwindSafe(move || drop(acc))) {
                        Ok(()) => complaints.push(format!("accumulator {who} ({k} errors) was dropped unfinished without a panic")),
                        Err(msg) => {
                            let ok = msg.contains("dropped without being finished") && if k > 0 { msg.contains(&format!("{k} errors were lost")) } else { !msg.contains("were lost") };
                            if !ok {
                                complaints.push(format!("accumulator {who} ({k} errors): drop message `{msg}`"));
                            }
                        }
                    },
                    End::Finish => match catch(std::panic::AssertUnwindSafe(move || acc.finish())) {
                        Ok(Ok(())) if k == 0 => {}
                        Ok(Err(e)) if k > 0 && e.len() == k => {}
                        Ok(r) => complaints.push(format!("accumulator {who} ({k} errors): finish() = {:?}", r.map_err(|e| e.to_string()))),
                        Err(p) => complaints.push(format!("accumulator {who}: finish() panicked: {p}")),
                    },
                    End::IntoInner => match catch(std::panic::AssertUnwindSafe(move || acc.into_inner())) {
                        Ok(v) if v.len() == k => {}
                        Ok(v) => complaints.push(format!("accumulator {who} ({k} errors): into_inner() has {} entries", v.len())),
                        Err(p) => complaints.push(format!("accumulator {who}: into_inner() panicked: {p}")),
                    },
                }
            }
        }
        for a in accs.into_iter().flatten() {
            let _ = a.into_inner();
        }
        t.evaluations += 1;
        t.states += 1;
        t.transitions += order.len() as u64;
        t.traces += 1;
        if lives.iter().any(|l| l.0 > 0) {
            t.nontrivial += 1;
        }
        t.hit("several_accumulators");
        for c in complaints {
            t.violate(Violation { key: format!("C05 several {label} :: {c}"), what: format!("{label}: {c}"), case: json!({"engine": "several"}), detail: json!({}) });
        }
    };
    // all interleavings of two lives
    fn interleavings(lens: &[usize]) -> Vec<Vec<usize>> {
        fn go(rem: &mut Vec<usize>, cur: &mut Vec<usize>, out: &mut Vec<Vec<usize>>) {
            if rem.iter().all(|r| *r == 0) {
                out.push(cur.clone());
                return;
            }
            for i in 0..rem.len() {
                if rem[i] > 0 {
                    rem[i] -= 1;
                    cur.push(i);
                    go(rem, cur, out);
                    cur.pop();
                    rem[i] += 1;
                }
            }
        }
        let mut out = vec![];
        go(&mut lens.to_vec(), &mut vec![], &mut out);
        out
    }
    for a in &scripts {
        for b in &scripts {
            for order in interleavings(&[a.0 + 2, b.0 + 2]) {
                run(&[*a, *b], &order, t);
            }
        }
    }
    // three lives, the third one short (created and ended with nothing recorded, or one error)
    for a in &scripts {
        for b in &scripts {
            for c in [(0usize, End::Drop), (1, End::Drop), (0, End::Finish)] {
                if a.0 + b.0 > 2 {
                    continue;
                }
                for order in interleavings(&[a.0 + 2, b.0 + 2, c.0 + 2]) {
                    run(&[*a, *b, c], &order, t);
                }
            }
        }
    }
}

fn dfs(hist: Vec<Op>, max: usize, skip_upto: usize, t: &mut Tally) {
    let done = errs_before(&hist) && *hist.last().unwrap() == Op::Checkpoint;
    if hist.len() > skip_upto {
        // shallower histories were already covered by the BFS run
        check_history(&hist, t);
        t.states += 1;
        t.transitions += 1;
        if hist.iter().any(|o| !matches!(o, Op::HandleOk | Op::HandleInOk | Op::Extend0 | Op::Checkpoint)) {
            t.nontrivial += 1;
        }
    }
    if done || hist.len() >= max {
        return;
    }
    for op in OPS {
        let mut h = hist.clone();
        h.push(op);
        dfs(h, max, skip_upto, t);
    }
}

// ---------------------------------------------------------------- child process for unwinding

fn all_histories(depth: usize) -> Vec<Vec<Op>> {
    let mut out = vec![vec![]];
    let mut frontier = vec![vec![]];
    for _ in 0..depth {
        let mut next = vec![];
        for h in &frontier {
            if !h.is_empty() && errs_before(h) && *h.last().unwrap() == Op::Checkpoint {
                continue;
            }
            for op in OPS {
                let mut n: Vec<Op> = h.clone();
                n.push(op);
                next.push(n);
            }
        }
        out.extend(next.iter().cloned());
        frontier = next;
    }
    out
}

fn progress_path() -> std::path::PathBuf {
    let d = vrt::verif_dir().join("harness/target/tmp");
    std::fs::create_dir_all(&d).ok();
    d.join(format!("c05_child_{}.progress", std::process::id()))
}

pub fn child(args: &Args) {
    use std::os::unix::fs::FileExt;
    let depth: usize = args.rest.first().and_then(|s| s.parse().ok()).unwrap_or(3);
    let path = args.rest.get(1).cloned().unwrap_or_else(|| "/dev/null".into());
    std::panic::set_hook(Box::new(|_| {}));
    let f = std::fs::OpenOptions::new().write(true).create(true).truncate(true).open(&path).unwrap();
    let hs = all_histories(depth);
    let mut bad = vec![];
    let mut probes = 0u64;
    for (i, h) in hs.iter().enumerate() {
        f.write_all_at(format!("{i:012}").as_bytes(), 0).unwrap();
        if let Err(m) = probe(h, Term::DropUnwinding) {
            bad.push(json!({"hist": h, "term": Term::DropUnwinding, "message": m}));
        }
        for t in [Term::Finish, Term::FinishWith, Term::IntoInner, Term::FinishLen] {
            probes += 1;
            if let Err(m) = probe_unwinding(h, t) {
                bad.push(json!({"hist": h, "term": t, "message": m}));
            }
        }
        if bad.len() > 20 {
            break;
        }
    }
    println!("{}", json!({"histories": hs.len(), "finishing_probes": probes, "bad": bad}));
}

/// Drop probes only, for every history up to `depth` (run in a binary built without debug
/// assertions).
pub fn drop_child(args: &Args) {
    let depth: usize = args.rest.first().and_then(|s| s.parse().ok()).unwrap_or(3);
    std::panic::set_hook(Box::new(|_| {}));
    let hs = all_histories(depth);
    let mut bad = vec![];
    for h in &hs {
        match catch(std::panic::AssertUnwindSafe(|| probe(h, Term::Drop))) {
            Ok(Ok(())) => {}
            Ok(Err(m)) => bad.push(json!({"hist": h, "message": m})),
            Err(p) => bad.push(json!({"hist": h, "message": format!("unexpected panic: {p}")})),
        }
        if bad.len() > 20 {
            break;
        }
    }
    println!("{}", json!({"histories": hs.len(), "debug_assertions": cfg!(debug_assertions), "bad": bad}));
}

/// Builds vcheck in the `nodebug` profile and runs the drop probes there.
fn nodebug_drop_sweep(rep: &mut Report, depth: usize) {
    let hd = crate::corpus::harness_dir();
    let out = std::process::Command::new("cargo")
        .current_dir(&hd)
        .env("CARGO_NET_OFFLINE", "true")
        .args(["build", "--offline", "-q", "-p", "vcheck", "--profile", "nodebug"])
        .output()
        .unwrap_or_else(|e| vrt::machinery(&format!("cannot run cargo: {e}")));
    if !out.status.success() {
        vrt::machinery(&format!("nodebug build failed:\n{}", String::from_utf8_lossy(&out.stderr).chars().take(2000).collect::<String>()));
    }
    let exe = hd.join("target/nodebug/vcheck");
    let out = std::process::Command::new(&exe).args(["c05-drop-child", &depth.to_string()]).output().unwrap_or_else(|e| vrt::machinery(&format!("cannot spawn {exe:?}: {e}")));
    if !out.status.success() {
        vrt::machinery(&format!("nodebug drop child failed: {}", out.status));
    }
    let v: serde_json::Value = serde_json::from_slice(&out.stdout).unwrap_or_else(|e| vrt::machinery(&format!("nodebug child output: {e}")));
    rep.require(v["debug_assertions"] == json!(false), "the nodebug child was built with debug assertions");
    let n = v["histories"].as_u64().unwrap_or(0);
    rep.tally.evaluations += n;
    rep.tally.traces += n;
    rep.set("drop_probes_without_debug_assertions", json!(n));
    for b in v["bad"].as_array().cloned().unwrap_or_default() {
        let h: Vec<Op> = serde_json::from_value(b["hist"].clone()).unwrap();
        let mut viol = violation(&h, Some(Term::Drop), format!("built without debug assertions: {}", b["message"].as_str().unwrap_or("")));
        viol.case["profile"] = json!("nodebug");
        rep.tally.violate(viol);
    }
}

fn unwind_sweep(rep: &mut Report, depth: usize) {
    let exe = std::env::current_exe().unwrap();
    let prog = progress_path();
    let out = std::process::Command::new(exe)
        .args(["c05-child", &depth.to_string(), prog.to_str().unwrap()])
        .output()
        .unwrap_or_else(|e| vrt::machinery(&format!("cannot spawn child: {e}")));
    let hs = all_histories(depth);
    if !out.status.success() {
        // aborted: the progress file names the history that was running
        let idx: usize = std::fs::read_to_string(&prog).ok().and_then(|s| s.trim().parse().ok()).unwrap_or(usize::MAX);
        let _ = std::fs::remove_file(&prog);
        match hs.get(idx) {
            Some(h) => {
                let msg = format!("process died ({}) while unwinding past an unfinished accumulator", out.status);
                rep.tally.violate(violation(h, Some(Term::DropUnwinding), msg));
            }
            None => vrt::machinery("unwind child died without progress information"),
        }
        return;
    }
    let _ = std::fs::remove_file(&prog);
    let v: serde_json::Value = serde_json::from_slice(&out.stdout).unwrap_or_else(|e| vrt::machinery(&format!("child output: {e}")));
    let n = v["histories"].as_u64().unwrap_or(0);
    rep.require(n as usize == hs.len(), "child explored a different number of histories");
    rep.tally.evaluations += n;
    rep.tally.traces += n;
    rep.set("unwind_histories_in_child", json!(n));
    for b in v["bad"].as_array().cloned().unwrap_or_default() {
        let h: Vec<Op> = serde_json::from_value(b["hist"].clone()).unwrap();
        let term: Term = serde_json::from_value(b["term"].clone()).unwrap_or(Term::DropUnwinding);
        let mut v = violation(&h, Some(term), b["message"].as_str().unwrap_or("").to_string());
        v.case["unwinding"] = json!(true);
        rep.tally.violate(v);
    }
    let fp = v["finishing_probes"].as_u64().unwrap_or(0);
    rep.tally.evaluations += fp;
    rep.tally.traces += fp;
    rep.set("finishing_probes_while_unwinding", json!(fp));
    let _ = Tier::Quick;
}
