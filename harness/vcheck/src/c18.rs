//! C18 — shape validation: generated `supports(..)` receivers explored by vrt::shape.
use crate::corpus::*;
use crate::Args;
use serde_json::json;
use vrt::shape::{VWORDS, WORDS};
use vrt::{Report, Tier};

fn masks(tier: Tier) -> Vec<usize> {
    if tier == Tier::Thorough {
        return (0..2048).collect();
    }
    // quick: every subset of size <= 2 and their complements
    let mut v = vec![];
    for m in 0..2048usize {
        let c = m.count_ones();
        if c <= 2 || c >= 9 {
            v.push(m);
        }
    }
    v
}

pub fn generate_shape(tier: Tier) -> Vec<String> {
    let ms = masks(tier);
    let shards = if tier == Tier::Thorough { 16 } else { 4 };
    let per = (ms.len() + shards - 1) / shards;
    let tag = if tier == Tier::Thorough { "t" } else { "q" };
    let mut names = vec![];
    for k in 0..shards {
        let pkg = format!("shape_{tag}_{k}");
        let dir = harness_dir().join("gen").join(&pkg);
        let toml = format!(
            "[package]\nname = \"{pkg}\"\nversion = \"0.0.0\"\nedition = \"2021\"\n[dependencies]\nvmodel = {{ path = \"../../vmodel\" }}\nvrt = {{ path = \"../../vrt\" }}\ndarling = {{ workspace = true, features = [\"suggestions\"] }}\nsyn = {{ workspace = true }}\n"
        );
        write_if_changed_pub(&dir.join("Cargo.toml"), &toml);
        let mut src = String::from("#![allow(dead_code, non_camel_case_types)]\nfn keep_body(_: &syn::Data) -> darling::Result<u8> { Ok(0) }\n");
        let mut reg = String::new();
        for m in ms.iter().skip(k * per).take(per) {
            let words: Vec<&str> = WORDS.iter().enumerate().filter(|(i, _)| m >> i & 1 == 1).map(|(_, w)| *w).collect();
            // what else the receiver declares does not bear on the verdict: no members, a
            // converted body, or a body handed to the receiver's own function
            let members = match m % 3 {
                0 => "",
                1 => " pub ident: syn::Ident, pub data: darling::ast::Data<darling::util::Ignored, darling::util::Ignored> ",
                _ => " #[darling(with = keep_body)] pub data: u8, pub generics: syn::Generics ",
            };
            src.push_str(&format!("#[derive(darling::FromDeriveInput)]\n#[darling(supports({}))]\npub struct S{m} {{{members}}}\nimpl vrt::ToVal for S{m} {{ fn to_val(&self) -> vmodel::ir::Val {{ vmodel::ir::Val::Unit }} }}\n", words.join(", ")));
            reg.push_str(&format!("    v.push(vrt::shape::ShapeEntry {{ mask: {m}, variant_receiver: false, gathered: false, converts_body: {}, alt_mask: None, run: vrt::run::run_from_derive_input::<S{m}> }});\n", m % 3 == 1));
        }
        if k == 0 {
            // `supports(..)` written twice (one attribute, two attributes): the lists add up or
            // the last one stands - never anything else
            let singles = [0usize, 1, 2, 5, 6, 7, 10];
            let mut n2 = 0;
            for a in singles {
                for b in singles {
                    for split in [false, true] {
                        let (wa, wb) = (WORDS[a], WORDS[b]);
                        let attr = if split { format!("#[darling(supports({wa}))]\n#[darling(supports({wb}))]") } else { format!("#[darling(supports({wa}), supports({wb}))]") };
                        src.push_str(&format!("#[derive(darling::FromDeriveInput)]\n{attr}\npub struct S2_{n2} {{}}\nimpl vrt::ToVal for S2_{n2} {{ fn to_val(&self) -> vmodel::ir::Val {{ vmodel::ir::Val::Unit }} }}\n"));
                        reg.push_str(&format!("    v.push(vrt::shape::ShapeEntry {{ mask: {}, variant_receiver: false, gathered: false, converts_body: false, alt_mask: Some({}), run: vrt::run::run_from_derive_input::<S2_{n2}> }});\n", 1usize << b, (1usize << a) | (1usize << b)));
                        n2 += 1;
                    }
                }
            }
            for m in 0..32usize {
                let words: Vec<&str> = VWORDS.iter().enumerate().filter(|(i, _)| m >> i & 1 == 1).map(|(_, w)| *w).collect();
                src.push_str(&format!("#[derive(darling::FromVariant)]\n#[darling(supports({}))]\npub struct SV{m} {{}}\nimpl vrt::ToVal for SV{m} {{ fn to_val(&self) -> vmodel::ir::Val {{ vmodel::ir::Val::Unit }} }}\n", words.join(", ")));
                reg.push_str(&format!("    v.push(vrt::shape::ShapeEntry {{ mask: {m}, variant_receiver: true, gathered: false, converts_body: false, alt_mask: None, run: vrt::run::run_from_variant::<SV{m}> }});\n"));
                // the same variant receiver gathered over a whole enum by a `data` member
                src.push_str(&format!("#[derive(darling::FromDeriveInput)]\npub struct SD{m} {{ pub data: darling::ast::Data<SV{m}, darling::util::Ignored> }}\nimpl vrt::ToVal for SD{m} {{ fn to_val(&self) -> vmodel::ir::Val {{ vmodel::ir::Val::Unit }} }}\n"));
                reg.push_str(&format!("    v.push(vrt::shape::ShapeEntry {{ mask: {m}, variant_receiver: true, gathered: true, converts_body: true, alt_mask: None, run: vrt::run::run_from_derive_input::<SD{m}> }});\n"));
            }
        }
        src.push_str(&format!("fn entries() -> Vec<vrt::shape::ShapeEntry> {{\n    let mut v = vec![];\n{reg}    v\n}}\nfn main() {{ vrt::shape::main(entries()); }}\n"));
        write_if_changed_pub(&dir.join("src/main.rs"), &src);
        names.push(pkg);
    }
    names
}

pub fn main(args: &Args) {
    let pkgs = generate_shape(args.tier);
    if let Some(p) = &args.replay {
        let case = crate::load_case(p);
        let shard = case["shard"].as_u64().unwrap_or(0) as usize;
        if let Err(e) = build(&pkgs[shard..=shard]) {
            vrt::machinery(&format!("corpus build failed:\n{e}"));
        }
        let st = std::process::Command::new(bin_path(&pkgs[shard])).args(["--replay", p, "--tier", args.tier.name()]).status().unwrap();
        std::process::exit(st.code().unwrap_or(2));
    }
    let mut rep = Report::new("C18", args.tier, "model_checking");
    if let Err(e) = build(&pkgs) {
        vrt::machinery(&format!("corpus build failed:\n{}", e.chars().take(3000).collect::<String>()));
    }
    let mut t = run_shards(&pkgs, "C18", args.tier, &[]);
    // model_checking bookkeeping: a state is a (declared set, body) pair of the table model
    t.states = t.counters.get("expect_accept").copied().unwrap_or(0) + t.counters.get("expect_reject").copied().unwrap_or(0);
    t.transitions = t.states;
    t.traces = t.states;
    rep.absorb(t);
    let n = masks(args.tier).len();
    rep.set("supports_receivers", json!(n));
    rep.rule = format!(
        "{n} compiled FromDeriveInput receivers, one per subset of the eleven shape words ({}), rotating through three member sets (none; `ident` + converted `data`; `with`-function `data` + `generics`: the verdict does not depend on them, except that a converted body refuses unions), x bodies: 6 structs (four styles + empty braces / parens), every enum of 0..{} variants over the four styles, enums of 5..33 variants with the styles in rotation / all of one style, a union; 32 FromVariant receivers (all subsets of named/tuple/newtype/unit/any) x 4 variant shapes, and each of them gathered over whole enums by a `data: ast::Data<_, _>` member (one error per non-conforming variant); the ShapeSet API: all 16 sets x 4 shapes x 4 carriers. Oracle: the documented table (any; additive words; tuple admits newtype; wrong kind rejected with one error; enum: exactly one error per non-conforming variant; union: error, never a crash) and API verdict == derived verdict. states = (declared set, body) pairs evaluated on the table model, all of them replayed on the compiled receivers; non-trivial = pairs the table rejects.",
        if args.tier == Tier::Thorough { "all 2048" } else { "all of size <= 2 and their complements" },
        args.tier.pick(3, 4)
    );
    rep.assumptions = vec![];
    rep.require_counter("expect_accept");
    rep.require_counter("expect_reject");
    rep.require_counter("api_checked");
    rep.require_counter("api_vs_derived");
    rep.require(rep.tally.counters.get("receivers").copied().unwrap_or(0) as usize == n, "not every receiver ran");
    rep.require(rep.tally.counters.get("variant_receivers").copied().unwrap_or(0) == 32, "variant receivers missing");
    rep.require(rep.tally.counters.get("gathering_receivers").copied().unwrap_or(0) == 32, "gathering receivers missing");
    rep.finish()
}
