//! C09 — derived enum receivers, on the enum corpus.
use crate::corpus::*;
use crate::Args;
use serde_json::json;
use vrt::Report;

pub fn main(args: &Args) {
    let spec = enum_corpus(args.tier);
    let pkgs = generate(&spec);
    if let Some(p) = &args.replay {
        let case = crate::load_case(p);
        let shard = case["shard"].as_u64().unwrap_or(0) as usize;
        if let Err(e) = build(&pkgs[shard..=shard]) {
            vrt::machinery(&format!("corpus build failed:\n{e}"));
        }
        let st = std::process::Command::new(bin_path(&pkgs[shard])).args(["--prop", "C09", "--replay", p]).status().unwrap();
        std::process::exit(st.code().unwrap_or(2));
    }
    let mut rep = Report::new("C09", args.tier, "model_checking");
    if let Err(e) = build(&pkgs) {
        vrt::machinery(&format!("corpus build failed:\n{}", e.chars().take(3000).collect::<String>()));
    }
    // values and error leaves both belong to C09 for enum receivers
    let t = run_shards(&pkgs, "C09", args.tier, &[]);
    rep.absorb(t);
    rep.set("programs", json!(spec.programs.len()));
    rep.rule = format!(
        "{} generated enums (plus enums of 9 and 17 variants, irregular / one-character / keyword-free odd names under every case rule, an empty-braced variant, a Flag newtype; malformed bodies inside every variant; every input also with its values in invisible groups) (1-3 variants over 9 variant kinds: unit, renamed, skipped, word, newtype of u32 / Option / struct, struct, skipped struct; x container configurations: rename_all rules, from_word, from_none, allow_unknown_fields) compiled against the working tree. Inputs per enum: the bare word; name-value with every effective name, every Rust name, every name under every other case rule, skipped names, near misses, non-string values; the list form with every sequence of 0..{} nested items over a per-enum alphabet (7 forms per variant name + literal + unknown); the absent form. Oracle: reference interpreter (selected variant and payload, or error leaves with path). states = inputs (nodes of the sequence trees); non-trivial = inputs the model rejects.",
        spec.programs.len(),
        args.tier.pick(2, 3)
    );
    rep.assumptions = vec!["case rules re-implemented from their names (not from ident_case)".into()];
    rep.require_counter("expect_ok");
    rep.require_counter("expect_err");
    rep.require_counter("from_none_checked");
    for k in ["leaf_unknown", "leaf_format", "leaf_unknown_value", "leaf_too_few", "leaf_too_many", "leaf_missing"] {
        rep.require_counter(k);
    }
    rep.require(rep.tally.counters.get("generator_unparseable").is_none(), "generator produced unparseable sources");
    rep.finish()
}
