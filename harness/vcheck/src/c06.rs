//! C06 — the derive macros are total. Direct calls to `darling_core::derive::*` over a grammar of
//! DeriveInput items; every call under catch_unwind; output must be exactly one impl of the
//! requested trait xor one or more compile_error! invocations.
use crate::Args;
use rayon::prelude::*;
use serde_json::json;
use vrt::{catch, Report, Tally, Tier, Violation};

pub const DERIVES: [(&str, fn(&syn::DeriveInput) -> proc_macro2::TokenStream); 6] = [
    ("FromMeta", darling_core::derive::from_meta),
    ("FromDeriveInput", darling_core::derive::from_derive_input),
    ("FromField", darling_core::derive::from_field),
    ("FromVariant", darling_core::derive::from_variant),
    ("FromTypeParam", darling_core::derive::from_type_param),
    ("FromAttributes", darling_core::derive::from_attributes),
];

#[derive(Debug, PartialEq, Clone)]
pub enum Outcome {
    /// exactly one impl block of the requested trait
    Impl,
    /// only compile_error! invocations (count)
    Diagnostics(usize),
    Panic(String),
    /// anything else: both, neither, unparseable, foreign items
    Malformed(String),
}

pub fn classify_output(trait_name: &str, ts: proc_macro2::TokenStream) -> Outcome {
    let file: syn::File = match syn::parse2(ts.clone()) {
        Ok(f) => f,
        Err(e) => return Outcome::Malformed(format!("output does not parse as items: {e}")),
    };
    let mut impls = 0;
    let mut errors = 0;
    let mut other = 0;
    for it in &file.items {
        match it {
            syn::Item::Impl(i) => {
                let ok = i.trait_.as_ref().map(|(_, p, _)| p.segments.last().map(|s| s.ident == trait_name).unwrap_or(false)).unwrap_or(false);
                if ok {
                    impls += 1;
                } else {
                    other += 1;
                }
            }
            syn::Item::Macro(m) if m.mac.path.segments.last().map(|s| s.ident == "compile_error").unwrap_or(false) => errors += 1,
            _ => other += 1,
        }
    }
    match (impls, errors, other) {
        (1, 0, 0) => Outcome::Impl,
        (0, n, 0) if n > 0 => Outcome::Diagnostics(n),
        (i, e, o) => Outcome::Malformed(format!("{i} impl block(s) of {trait_name}, {e} compile_error!, {o} other item(s)")),
    }
}

pub fn run_derive(di: &syn::DeriveInput, which: usize) -> Outcome {
    let (name, f) = DERIVES[which];
    match catch(std::panic::AssertUnwindSafe(|| f(di))) {
        Ok(ts) => classify_output(name, ts),
        Err(p) => Outcome::Panic(p),
    }
}

const TOKENS: [&str; 11] = ["default", "zz", "=", ",", "\"s\"", "5", "true", "::", "-", "!", "(x)"];

fn bodies(maxlen: usize) -> Vec<String> {
    let mut out = vec![String::new()];
    let mut frontier = vec![String::new()];
    for _ in 0..maxlen {
        let mut next = vec![];
        for f in &frontier {
            for t in TOKENS {
                next.push(if f.is_empty() { t.to_string() } else { format!("{f} {t}") });
            }
        }
        out.extend(next.iter().cloned());
        frontier = next;
    }
    let mut v: Vec<String> = out.into_iter().map(|b| format!("#[darling({b})]")).collect();
    for whole in ["#[darling]", "#[darling = \"x\"]", "#[darling = 1 + 2]", "#[darling[a]]", "#[darling{a}]", "#[darling(,)]", "#[darling(a b)]", "#[darling(=>)]", "#[darling(\"x\")]", "#[darling(5)]", "#[darling(default)] #[darling]", "#[darling(default, 5)]"] {
        v.push(whole.to_string());
    }
    // well-formed single options, so that the accepting path is exercised too
    for o in ["rename = \"x\"", "default", "default = f", "with = f", "skip", "skip = false", "map = f", "and_then = f", "multiple", "flatten", "rename_all = \"snake_case\"", "attributes(a)", "forward_attrs", "supports(any)", "word", "from_ident", "allow_unknown_fields", "bound = \"T: X\"", "from_word = f", "from_none = || None",
        "::map = f", "::and_then = f", "::default", "::skip", "::flatten", "::rename = \"x\"", "a::map = f", "::attributes(a)", "::supports(any)", "::from_word = f", "::word", "::multiple"] {
        v.push(format!("#[darling({o})]"));
    }
    // every option name in every meta form (word, empty list, list, literal / path / bool values)
    for o in ["rename", "default", "with", "skip", "map", "and_then", "multiple", "flatten", "rename_all", "attributes", "forward_attrs", "supports", "word", "from_ident", "allow_unknown_fields", "bound", "from_word", "from_none"] {
        for form in ["", "()", "(x)", "(\"x\")", "(x = 1)", " = \"x\"", " = true", " = false", " = 5", " = f", " = -1", " = (x)"] {
            v.push(format!("#[darling({o}{form})]"));
        }
    }
    v.sort();
    v.dedup();
    v
}

const FIELD_TYPES: [&str; 19] = [
    "u8", "Vec<T>", "&'a str", "*const u8", "[u8; 4]", "(T, u8)", "fn(T) -> u8", "Box<dyn for<'b> Tr<'b, T>>", "<T as Tr>::Out", "m!(T)", "impl Sized", "impl Sized + use<T>",
    // every kind of generic argument: lifetime, type, const, associated type / const binding, constraint
    "Box<dyn Shape<SIDES = 3>>", "Foo<'a, T, 3, { 1 + 2 }, Item = T, Item: Tr<T>, N = 4>", "Holder<Vec<dyn Shape<SIDES = { N }>>>", "Foo<-1>", "Foo<N>",
    "Box<dyn Fn(T) -> T + 'a>", "[T; { <T as Tr>::N }]",
];

/// (prefix before the container attrs, text after them with `{F}` / `{V}` marking the slot for
/// field-level / variant-level attributes)
fn shapes(thorough: bool) -> Vec<String> {
    let mut v: Vec<String> = vec![
        "struct S;".into(),
        "struct S({F} u8);".into(),
        "struct S({F} u8, u8);".into(),
        "struct S(u8, {F} u8, u8);".into(),
        "struct S {}".into(),
        "struct S();".into(),
        "enum E { A, #[darling(skip)] B(u8, u8), {V} C() }".into(),
        "enum E { {V} A(), B {} }".into(),
        "struct S({F} u8, #[darling(skip)] u16);".into(),
        "struct S { {F} a: u8 }".into(),
        "struct S { {F} a: u8, b: Vec<u8> }".into(),
        "struct S { a: u8, {F} b: u8, attrs: Vec<u8> }".into(),
        "struct S { {F} ident: u8, data: u8 }".into(),
        "enum E {}".into(),
        "union U { {F} a: u8, b: u16 }".into(),
        // raw identifiers as member names (generated locals are derived from them)
        "struct S { {F} r#type: u8, other: u8 }".into(),
        "struct S { a: u8, {F} r#fn: Vec<u8> }".into(),
        "enum E { {V} r#Self_, B { {F} r#match: u8, x: u8 } }".into(),
    ];
    // enums: every mix of styles for 1..3 variants
    let styles = ["{V} A", "{V} A({F} u8)", "{V} A(u8, u8)", "{V} A { {F} x: u8 }"];
    let maxv = if thorough { 3 } else { 2 };
    let mut frontier: Vec<Vec<usize>> = vec![vec![]];
    for _ in 0..maxv {
        let mut next = vec![];
        for f in &frontier {
            for s in 0..styles.len() {
                let mut n = f.clone();
                n.push(s);
                next.push(n);
            }
        }
        for seq in &next {
            let vs: Vec<String> = seq
                .iter()
                .enumerate()
                .map(|(i, s)| {
                    let t = styles[*s].replace('A', &format!("V{i}"));
                    // only the first variant / field carries the attribute slot
                    if i == 0 {
                        t
                    } else {
                        t.replace("{V} ", "").replace("{F} ", "")
                    }
                })
                .collect();
            v.push(format!("enum E {{ {} }}", vs.join(", ")));
        }
        frontier = next;
    }
    for ty in FIELD_TYPES {
        v.push(format!("struct S<'a, T> {{ {{F}} a: {ty} }}"));
    }
    v
}

const GENERICS: [(&str, &str); 3] = [("", ""), ("<T>", ""), ("<'a, T: Clone, const N: usize>", " where T: Copy")];

fn with_generics(shape: &str, g: (&str, &str)) -> Option<String> {
    if shape.contains("<'a, T>") {
        return if g.0.is_empty() { Some(shape.to_string()) } else { None };
    }
    let (kw, rest) = shape.split_once(' ')?;
    let name_end = rest.find(|c: char| !c.is_alphanumeric())?;
    let (name, tail) = rest.split_at(name_end);
    // where-clause placement: before `{`, or before `;` for tuple/unit structs
    let tail = if g.1.is_empty() {
        tail.to_string()
    } else if tail.trim_start().starts_with('{') {
        format!("{} {}", g.1, tail)
    } else {
        tail.trim_end_matches(';').to_string() + g.1 + ";"
    };
    Some(format!("{kw} {name}{}{}", g.0, tail))
}

pub struct Case {
    pub src: String,
    pub nontrivial: bool,
}

/// Member names x `rename_all` rules (the case conversion runs at derive time).
fn rename_cases(out: &mut Vec<Case>) {
    let rules = ["lowercase", "PascalCase", "camelCase", "snake_case", "SCREAMING_SNAKE_CASE", "kebab-case", "Title Case", ""];
    let fields = ["__", "___", "_a", "a_", "a__b", "_1", "é", "été_x", "r#type", "A", "aB", "x1", "_é", "ß_ß", "a", "日本"];
    let variants = ["Été", "É", "_A", "__", "A_", "a", "X1", "ÀB", "A", "AB", "aB", "日本", "ßx"];
    for r in rules {
        for pre in ["", "attributes(a), "] {
            for f in fields {
                out.push(Case { src: format!("#[darling({pre}rename_all = \"{r}\")] struct S {{ {f}: u8, other: u8 }}"), nontrivial: true });
                out.push(Case { src: format!("#[darling({pre}rename_all = \"{r}\")] enum E {{ V {{ {f}: u8 }}, W }}"), nontrivial: true });
            }
            for v in variants {
                out.push(Case { src: format!("#[darling({pre}rename_all = \"{r}\")] enum E {{ {v}, Other(u8) }}"), nontrivial: true });
            }
        }
    }
}

/// Option values written the "lenient" way: quoted where a bare word is expected, in another
/// case, with a leading `::`, blank, outside ASCII. The derives answer with an impl or with
/// diagnostics - never with a panic.
fn lenient_spellings(out: &mut Vec<Case>) {
    let quoted = ["my-attr", "", " ", "::x::y", "a::", "::", "1a", "a b", "a,b", "é", "r#type", "type", "a::b", "x"];
    for q in quoted {
        for opt in ["attributes", "forward_attrs", "supports", "bound", "rename_all"] {
            out.push(Case { src: format!("#[darling({opt}(\"{q}\"))] struct S {{ a: u8 }}"), nontrivial: true });
            out.push(Case { src: format!("#[darling(attributes(a), {opt}(\"{q}\", b))] struct S {{ attrs: Vec<syn::Attribute>, a: u8 }}"), nontrivial: true });
            out.push(Case { src: format!("#[darling({opt} = \"{q}\")] struct S {{ a: u8 }}"), nontrivial: true });
        }
        for opt in ["rename", "with", "map", "and_then", "default"] {
            out.push(Case { src: format!("struct S {{ #[darling({opt} = \"{q}\")] a: u8, b: u8 }}"), nontrivial: true });
            out.push(Case { src: format!("#[darling(attributes(a))] struct S {{ #[darling({opt} = \"{q}\", flatten)] a: u8, #[darling({opt} = \"{q}\", {opt} = \"b\")] b: u8 }}"), nontrivial: true });
            out.push(Case { src: format!("enum E {{ #[darling({opt} = \"{q}\")] A, B {{ #[darling({opt} = \"{q}\")] x: u8 }} }}"), nontrivial: true });
        }
    }
    for w in ["enumé", "structñamed", "形状", "Struct_Named", "ENUM_UNIT", "Any", "enum_", "struct_", "enum", "struct", "enum_é", "struct_a\u{301}", "e", "é", "enumx_unit", "stru\u{441}t_any"] {
        out.push(Case { src: format!("#[darling(attributes(a), supports({w}))] struct S {{ a: u8 }}"), nontrivial: true });
        out.push(Case { src: format!("#[darling(attributes(a), supports({w}, struct_any))] struct S {{ a: u8 }}"), nontrivial: true });
    }
    for name in ["::map", "::and_then", "::skip", "::rename", "::with", "::default", "::flatten", "::multiple", "a::map", "darling::map", "::word", "::supports", "::attributes"] {
        for val in ["", " = f", " = \"x\"", "(a)"] {
            out.push(Case { src: format!("#[darling(attributes(a))] struct S {{ #[darling({name}{val})] a: u8, b: u8 }}"), nontrivial: true });
            out.push(Case { src: format!("#[darling({name}{val})] struct S {{ a: u8 }}"), nontrivial: true });
            out.push(Case { src: format!("enum E {{ #[darling({name}{val})] A, B {{ #[darling({name}{val})] x: u8 }} }}"), nontrivial: true });
        }
    }
}

pub fn cases(tier: Tier) -> Vec<Case> {
    let thorough = tier == Tier::Thorough;
    let bs = bodies(if thorough { 3 } else { 2 });
    let plain = "#[darling(default)]";
    let mut out = vec![];
    for shape in shapes(thorough) {
        for (gi, g) in GENERICS.iter().enumerate() {
            if !thorough && gi == 2 && !shape.starts_with("struct S {") {
                continue;
            }
            let Some(base) = with_generics(&shape, *g) else { continue };
            // no darling attribute at all
            out.push(Case { src: base.replace("{F} ", "").replace("{V} ", ""), nontrivial: false });
            for b in &bs {
                out.push(Case { src: format!("{b} {}", base.replace("{F} ", "").replace("{V} ", "")), nontrivial: b != plain });
                if base.contains("{F}") {
                    out.push(Case { src: base.replace("{F}", b).replace("{V} ", ""), nontrivial: true });
                }
                if base.contains("{V}") {
                    out.push(Case { src: base.replace("{V}", b).replace("{F} ", ""), nontrivial: true });
                }
            }
        }
    }
    rename_cases(&mut out);
    lenient_spellings(&mut out);
    out
}

pub fn check_src(src: &str, t: &mut Tally) {
    let di: syn::DeriveInput = match syn::parse_str(src) {
        Ok(d) => d,
        Err(_) => {
            t.hit("not_a_derive_input");
            return;
        }
    };
    for which in 0..DERIVES.len() {
        t.evaluations += 1;
        let o = run_derive(&di, which);
        let bad = match &o {
            Outcome::Impl => {
                t.hit("impl");
                None
            }
            Outcome::Diagnostics(n) => {
                t.hit("diagnostics");
                t.class(&format!("diagnostics={}", n.min(&6)));
                None
            }
            Outcome::Panic(p) => Some(format!("panicked: {p}")),
            Outcome::Malformed(m) => Some(format!("output is neither one impl nor diagnostics: {m}")),
        };
        if let Some(msg) = bad {
            t.violate(Violation {
                key: format!("C06 derive={} src=`{src}` :: {msg}", DERIVES[which].0),
                what: format!("derive({}) on `{src}`: {msg}", DERIVES[which].0),
                case: json!({"src": src, "derive": which}),
                detail: json!({}),
            });
        }
    }
    vrt::spans::reset();
}

pub fn main(args: &Args) {
    if let Some(p) = &args.replay {
        let c = crate::load_case(p);
        let src = c["src"].as_str().unwrap();
        let which = c["derive"].as_u64().unwrap() as usize;
        let di: syn::DeriveInput = syn::parse_str(src).unwrap();
        let o = run_derive(&di, which);
        println!("replay derive({}) on `{src}`: {o:?}", DERIVES[which].0);
        std::process::exit(if matches!(o, Outcome::Impl | Outcome::Diagnostics(_)) { 0 } else { 1 });
    }
    let mut rep = Report::new("C06", args.tier, "exploration");
    let cs = cases(args.tier);
    let n_cases = cs.len();
    let tl = cs
        .par_chunks(256)
        .map(|chunk| {
            let mut t = Tally::default();
            for c in chunk {
                let before = t.evaluations;
                check_src(&c.src, &mut t);
                if c.nontrivial && t.evaluations > before {
                    t.nontrivial += 1;
                }
            }
            t
        })
        .reduce(Tally::default, Tally::merge);
    rep.absorb(tl);
    // the option-selection declarations of C10 (well-formed and ill-formed option lists), judged
    // for totality only
    let (t2, n2) = crate::c10::sweep(args.tier, true);
    rep.tally.nontrivial += n2 as u64;
    rep.absorb(t2);
    rep.set("option_selection_declarations", json!(n2));
    rep.set("derive_inputs", json!(n_cases));
    rep.rule = format!(
        "DeriveInput grammar: shapes (unit, newtype, 2/3-tuple, named 0..3 fields incl. magic names, every enum of 0..{} variants over 4 styles, union, 19 field types incl. `impl Sized + use<T>` and every kind of generic argument; 29 member names (underscore-only, non-ASCII, raw) x 8 rename_all values) x 3 generics forms x `#[darling ...]` attributes at container, first-field and first-variant position: every token sequence of length <= {} over {{default zz = , \"s\" 5 true :: - ! (x)}}, 12 non-list / malformed forms, 20 well-formed options; plus every option-selection declaration of the C10 check (ordered selections of field / variant / container options, body-rule cases); each accepted item goes through all six derive functions under catch_unwind. Oracle: returns; output parses as items and is exactly one impl of the requested trait xor >= 1 compile_error!. distinct_nontrivial = derive inputs that carry a darling attribute other than a plain `default`.",
        args.tier.pick(2, 3),
        args.tier.pick(2, 3)
    );
    rep.assumptions = vec!["inputs are what syn accepts as a DeriveInput".into()];
    rep.tally.samples.push(json!({"src": "struct S { #[darling(default = , zz)] a: u8 }", "derive": "FromField", "expect": "compile_error! diagnostics, no panic"}));
    rep.require_counter("impl");
    rep.require_counter("diagnostics");
    rep.require(rep.tally.outcome_classes.len() >= 2, "too few outcome classes");
    rep.finish()
}
