//! C17 — did-you-mean suggestions; the corpus is built twice (feature on / off).
use crate::corpus::*;
use crate::Args;
use serde_json::json;
use vrt::Report;

pub fn main(args: &Args) {
    let on = sugg_corpus(true);
    let off = sugg_corpus(false);
    let p_on = generate(&on);
    let p_off = generate(&off);
    if let Some(p) = &args.replay {
        if let Err(e) = build(&p_on) {
            vrt::machinery(&format!("corpus build failed:\n{e}"));
        }
        let st = std::process::Command::new(bin_path(&p_on[0])).args(["--prop", "C17", "--replay", p]).status().unwrap();
        std::process::exit(st.code().unwrap_or(2));
    }
    let mut rep = Report::new("C17", args.tier, "model_checking");
    // separate cargo invocations: feature unification must not switch `suggestions` on for
    // the feature-off build
    if let Err(e) = build(&p_on) {
        vrt::machinery(&format!("corpus build failed:\n{}", e.chars().take(3000).collect::<String>()));
    }
    if let Err(e) = build(&p_off) {
        vrt::machinery(&format!("corpus build (suggestions off) failed:\n{}", e.chars().take(3000).collect::<String>()));
    }
    let t_on = run_shards(&p_on, "C17", args.tier, &[]);
    let t_off = run_shards(&p_off, "C17", args.tier, &["--no-sugg".to_string()]);
    let on_matches = t_on.counters.get("suggestion_matches").copied().unwrap_or(0);
    let off_matches = t_off.counters.get("suggestion_matches").copied().unwrap_or(0);
    rep.set("evaluations_feature_on", json!(t_on.evaluations));
    rep.set("evaluations_feature_off", json!(t_off.evaluations));
    rep.absorb(t_on);
    rep.absorb(t_off);
    rep.set("programs", json!(on.programs.len()));
    rep.rule = format!(
        "{} receivers (flat struct with renamed/skipped/multiple members, flatten chains of depth 1-3 with overlapping names, a nested child below a flatten member, skip next to flatten, an enum with renamed and skipped variants), each compiled with the `suggestions` feature on and off. Unknown names: every string within edit distance {} (insert/delete/substitute over {{a,e,l,r,_,x}}, adjacent transposition) of every valid, skipped, renamed and parent name, at the top level, next to a second unknown name, and inside the nested child. Oracle: candidate lists per position (innermost receiver first, enclosing receivers only for names the flatten member received directly; non-skipped variants for enums), suggestion = a maximal strsim Jaro-Winkler candidate above 0.8 (ties: any), nothing otherwise; suggestions only on that unknown-name leaf; the suggested name re-parses as known; feature off: same errors, no suggestion. states = (receiver, position, name) triples; non-trivial = those with an expected suggestion.",
        on.programs.len(),
        if args.tier == vrt::Tier::Thorough { "<= 2 (3 for names of <= 4 characters)" } else { "<= 1 (2 for names of <= 4 characters)" }
    );
    rep.assumptions = vec!["strsim::jaro_winkler is the similarity metric; threshold 0.8 as documented".into()];
    rep.require(on_matches > 100, "too few inputs with an expected suggestion");
    rep.require(off_matches == 0, "feature-off build produced suggestions that matched");
    rep.require_counter("no_suggestion_expected");
    rep.finish()
}
