//! C17 — did-you-mean suggestions; the corpus is built twice (feature on / off).
use crate::corpus::*;
use crate::Args;
use serde_json::json;
use vrt::Report;

/// API level: names are lent to unknown-name errors through `add_sibling_alts_for_unknown_field`
/// by hand-written conversions too, which may look at an error (format it, count it, clone it)
/// on the way. Every sequence of up to four operations on three kinds of starting error, with
/// every subset of the gaps filled by a look at the error: what the error finally says is the
/// same as without the looks.
fn api_probe() -> vrt::Tally {
    use darling_core::Error;
    use vrt::{catch, Tally, Violation};
    #[derive(Clone, Copy, Debug, PartialEq)]
    enum Op {
        LendClose,
        LendCloser,
        LendFar,
        At,
        Wrap,
        Flatten,
    }
    const OPS: [Op; 6] = [Op::LendClose, Op::LendCloser, Op::LendFar, Op::At, Op::Wrap, Op::Flatten];
    let starts: [(&str, fn() -> Error); 4] = [
        ("unknown_field(bladt)", || Error::unknown_field("bladt")),
        ("unknown_field_with_alts(bladt, [blade, xyz])", || Error::unknown_field_with_alts("bladt", &["blade", "xyz"])),
        ("multiple(unknown_field(bladt), custom)", || Error::multiple(vec![Error::unknown_field("bladt"), Error::custom("other")])),
        ("multiple(unknown(bladt) at inner, unknown(volumf))", || Error::multiple(vec![Error::unknown_field("bladt").at("inner"), Error::unknown_field_with_alts("volumf", &["volt"])])),
    ];
    fn step(e: Error, op: Op) -> Error {
        match op {
            Op::LendClose => e.add_sibling_alts_for_unknown_field(&["blast", "volum"]),
            Op::LendCloser => e.add_sibling_alts_for_unknown_field(&["bladu", "volume"]),
            Op::LendFar => e.add_sibling_alts_for_unknown_field(&["zqzq", "qzqz"]),
            Op::At => e.at("loc"),
            Op::Wrap => Error::multiple(vec![e, Error::custom("sibling")]),
            Op::Flatten => e.flatten(),
        }
    }
    fn look(e: &Error) {
        let _ = (e.to_string(), format!("{e:?}"), e.len(), e.clone().flatten().to_string());
    }
    fn says(e: Error) -> Vec<String> {
        e.flatten().into_iter().map(|l| l.to_string()).collect()
    }
    let mut t = Tally::default();
    let mut seqs: Vec<Vec<Op>> = vec![vec![]];
    let mut frontier: Vec<Vec<Op>> = vec![vec![]];
    for _ in 0..4 {
        let mut next = vec![];
        for s in &frontier {
            for o in OPS {
                let mut n = s.clone();
                n.push(o);
                next.push(n);
            }
        }
        seqs.extend(next.iter().cloned());
        frontier = next;
    }
    for (name, mk) in starts {
        for seq in &seqs {
            let plain = match catch(std::panic::AssertUnwindSafe(|| says(seq.iter().fold(mk(), |e, o| step(e, *o))))) {
                Ok(v) => v,
                Err(p) => {
                    t.violate(Violation { key: format!("C17 api {name} {seq:?} :: panicked"), what: format!("{name} then {seq:?} panicked: {p}"), case: json!({"engine": "api"}), detail: json!({}) });
                    continue;
                }
            };
            t.states += 1;
            if plain.iter().any(|m| m.contains("Did you mean")) {
                t.nontrivial += 1;
            }
            for looks in 1u32..(1 << (seq.len() + 1)) {
                t.evaluations += 1;
                t.transitions += 1;
                t.hit("api_looks");
                let got = catch(std::panic::AssertUnwindSafe(|| {
                    let mut e = mk();
                    if looks & 1 != 0 {
                        look(&e);
                    }
                    for (i, o) in seq.iter().enumerate() {
                        e = step(e, *o);
                        if looks >> (i + 1) & 1 != 0 {
                            look(&e);
                        }
                    }
                    says(e)
                }));
                if got.as_ref().ok() != Some(&plain) {
                    t.violate(Violation {
                        key: format!("C17 api {name} {seq:?} looks={looks:#b}"),
                        what: format!("{name} then {seq:?}: finally says {plain:?}; having been looked at (formatted, counted, cloned) in the gaps {looks:#b} it says {got:?}"),
                        case: json!({"engine": "api"}),
                        detail: json!({}),
                    });
                }
            }
        }
    }
    t
}

pub fn main(args: &Args) {
    let on = sugg_corpus(true);
    let off = sugg_corpus(false);
    let p_on = generate(&on);
    let p_off = generate(&off);
    if let Some(p) = &args.replay {
        if crate::load_case(p)["engine"] == "api" {
            let t = api_probe();
            for v in &t.violations {
                println!("replay: {}", v.what);
            }
            std::process::exit(if t.violations.is_empty() { 0 } else { 1 });
        }
        if let Err(e) = build(&p_on) {
            vrt::machinery(&format!("corpus build failed:\n{e}"));
        }
        let st = std::process::Command::new(bin_path(&p_on[0])).args(["--prop", "C17", "--replay", p]).status().unwrap();
        std::process::exit(st.code().unwrap_or(2));
    }
    let mut rep = Report::new("C17", args.tier, "model_checking");
    // separate cargo invocations: feature unification must not switch `suggestions` on for
    // the feature-off build
    if let Err(e) = build(&p_on) {
        vrt::machinery(&format!("corpus build failed:\n{}", e.chars().take(3000).collect::<String>()));
    }
    if let Err(e) = build(&p_off) {
        vrt::machinery(&format!("corpus build (suggestions off) failed:\n{}", e.chars().take(3000).collect::<String>()));
    }
    let t_on = run_shards(&p_on, "C17", args.tier, &[]);
    let t_off = run_shards(&p_off, "C17", args.tier, &["--no-sugg".to_string()]);
    let on_matches = t_on.counters.get("suggestion_matches").copied().unwrap_or(0);
    let off_matches = t_off.counters.get("suggestion_matches").copied().unwrap_or(0);
    rep.set("evaluations_feature_on", json!(t_on.evaluations));
    rep.set("evaluations_feature_off", json!(t_off.evaluations));
    rep.absorb(t_on);
    rep.absorb(t_off);
    rep.absorb(api_probe());
    rep.set("programs", json!(on.programs.len()));
    rep.rule = format!(
        "{} receivers (flat struct with renamed/skipped/multiple members, flatten chains of depth 1-3 with overlapping names, a nested child below a flatten member, skip next to flatten, an enum with renamed and skipped variants), each compiled with the `suggestions` feature on and off. Unknown names: every string within edit distance {} (insert/delete/substitute over {{a,e,l,r,_,x}}, adjacent transposition) of every valid, skipped, renamed and parent name, at the top level, next to a second unknown name, and inside the nested child. Oracle: candidate lists per position (innermost receiver first, enclosing receivers only for names the flatten member received directly; non-skipped variants for enums), suggestion = a maximal strsim Jaro-Winkler candidate above 0.8 (ties: any), nothing otherwise; suggestions only on that unknown-name leaf; the suggested name re-parses as known; feature off: same errors, no suggestion. API level: four kinds of starting error x every sequence of <= 4 operations over lend-close / lend-closer / lend-far names, at, wrap in a bundle, flatten x every subset of the gaps in which the error is looked at (formatted, counted, cloned and flattened): the final messages equal those without the looks. states = (receiver, position, name) triples; non-trivial = those with an expected suggestion.",
        on.programs.len(),
        if args.tier == vrt::Tier::Thorough { "<= 2 (3 for names of <= 4 characters)" } else { "<= 1 (2 for names of <= 4 characters)" }
    );
    rep.assumptions = vec!["strsim::jaro_winkler is the similarity metric; threshold 0.8 as documented".into()];
    rep.require(on_matches > 100, "too few inputs with an expected suggestion");
    rep.require(off_matches == 0, "feature-off build produced suggestions that matched");
    rep.require_counter("no_suggestion_expected");
    rep.finish()
}
