//! C15 — attribute syntax is split into items and routed to conversion hooks by form.
use crate::Args;
use darling::ast::NestedMeta;
use proc_macro2::{TokenStream, TokenTree};
use quote::ToTokens;
use rayon::prelude::*;
use serde_json::json;
use std::cell::{Cell, RefCell};
use vrt::{catch, Report, Tally, Violation};

// ------------------------------------------------------------------ parser half

#[derive(Clone, Copy, Debug, PartialEq, Eq)]
pub enum Class {
    Lit,
    Meta,
}

fn squash(s: String) -> String {
    s.chars().filter(|c| !c.is_whitespace()).collect()
}

fn chunk_class(chunk: &[TokenTree]) -> Option<Class> {
    if chunk.is_empty() {
        return None;
    }
    let ts: TokenStream = chunk.iter().cloned().collect();
    // `true` alone is a literal; `true = ..` is an item
    if syn::parse2::<syn::Lit>(ts.clone()).is_ok() {
        return Some(Class::Lit);
    }
    if syn::parse2::<syn::Meta>(ts).is_ok() {
        return Some(Class::Meta);
    }
    None
}

/// Independent recogniser: all segmentations of the top-level token trees at commas such that
/// every chunk is wholly a literal or a meta item (one trailing comma allowed, empty allowed).
pub fn recognise(ts: &TokenStream) -> Vec<Vec<(Class, String)>> {
    let toks: Vec<TokenTree> = ts.clone().into_iter().collect();
    if toks.is_empty() {
        return vec![vec![]];
    }
    let mut commas: Vec<usize> = toks.iter().enumerate().filter(|(_, t)| matches!(t, TokenTree::Punct(p) if p.as_char() == ',')).map(|(i, _)| i).collect();
    let n = toks.len();
    // a trailing comma is dropped once
    let mut end = n;
    if commas.last() == Some(&(n - 1)) {
        end = n - 1;
        commas.pop();
        if end == 0 {
            return vec![]; // a lone comma
        }
    }
    // boundaries: start (0), after each comma, end
    // dp over comma indices: seg[k] = segmentations of toks[0..commas[k]] (chunk ends right before comma k)
    fn go(toks: &[TokenTree], commas: &[usize], start: usize, end: usize, from_comma: usize, acc: &mut Vec<(Class, String)>, out: &mut Vec<Vec<(Class, String)>>) {
        // try ending the current chunk at each later comma, or at `end`
        for k in from_comma..=commas.len() {
            let stop = if k == commas.len() { end } else { commas[k] };
            if stop < start {
                continue;
            }
            if let Some(c) = chunk_class(&toks[start..stop]) {
                let text = squash(toks[start..stop].iter().cloned().collect::<TokenStream>().to_string());
                acc.push((c, text));
                if k == commas.len() {
                    out.push(acc.clone());
                } else {
                    go(toks, commas, stop + 1, end, k + 1, acc, out);
                }
                acc.pop();
            }
            if out.len() > 8 {
                return;
            }
        }
    }
    let mut out = vec![];
    go(&toks, &commas, 0, end, 0, &mut vec![], &mut out);
    out
}

pub fn check_stream(text: &str, t: &mut Tally) {
    let ts: TokenStream = match text.parse() {
        Ok(t) => t,
        Err(_) => {
            t.hit("not_a_token_stream");
            return;
        }
    };
    t.evaluations += 1;
    let real = catch(std::panic::AssertUnwindSafe(|| NestedMeta::parse_meta_list(ts.clone())));
    let model = recognise(&ts);
    let bad = |msg: String, t: &mut Tally| {
        t.violate(Violation { key: format!("C15 parser `{text}` :: {msg}"), what: format!("parse_meta_list(`{text}`): {msg}"), case: json!({"engine": "parser", "text": text}), detail: json!({}) })
    };
    match real {
        Err(p) => bad(format!("panicked: {p}"), t),
        Ok(Err(e)) => {
            t.hit("expect_reject_or_rejected");
            if !model.is_empty() {
                bad(format!("rejected (`{e}`) although it is a comma-separated list of literals and meta items: {:?}", model[0]), t);
            } else {
                t.nontrivial += 1;
                t.hit("rejected");
            }
        }
        Ok(Ok(items)) => {
            if model.is_empty() {
                bad(format!("accepted as {} items although no segmentation into literals and meta items exists", items.len()), t);
                return;
            }
            t.hit("accepted");
            let got: Vec<(Class, String)> = items
                .iter()
                .map(|i| match i {
                    NestedMeta::Lit(l) => (Class::Lit, squash(l.to_token_stream().to_string())),
                    NestedMeta::Meta(m) => (Class::Meta, squash(m.to_token_stream().to_string())),
                })
                .collect();
            if !model.iter().any(|m| *m == got) {
                bad(format!("items {got:?} differ from the segmentation {:?}", model[0]), t);
                return;
            }
            // printing then re-parsing is the identity
            let printed = quote::quote!(#(#items),*);
            match NestedMeta::parse_meta_list(printed.clone()) {
                Ok(again) => {
                    let a: Vec<String> = again.iter().map(|i| squash(i.to_token_stream().to_string())).collect();
                    let b: Vec<String> = got.iter().map(|g| g.1.clone()).collect();
                    if a != b {
                        bad(format!("print / re-parse gives {a:?}, originally {b:?}"), t);
                    }
                }
                Err(e) => bad(format!("its own printing `{printed}` does not re-parse: {e}"), t),
            }
        }
    }
    vrt::spans::reset();
}

const ITEM_FORMS: [&str; 46] = [
    // raw identifiers that are not keywords stay raw, in every item form and inside paths
    "r#foo", "a::r#bar(r#baz = 1)", "r#foo = r#qux", "r#Self_x::r#y",
    // C strings, raw strings, numbers beyond 128 bits, suffixed and exponent forms
    "c\"x\"", "cr#\"x\"#", "r#\"raw\"#", "-170141183460469231731687303715884105729", "a = -340282366920938463463374607431768211457", "a = 1e400", "7u8", "a = 1_000.5e-3f64",
    "5", "-5", "1.5", "\"s\"", "'c'", "b\"x\"", "b'c'", "true", "false", "a", "a::b", "::a::b", "crate::x", "self", "r#type", "a = 1", "a = \"s\"", "a = -1", "a = b::c", "a = f::<x, y>()",
    "a = |p, q| p", "a = [1, 2]", "a = (1, 2)", "a = 1 + 2", "true = 1", "a = true", "a()", "a(b)", "a(b, c = 1)", "a(b(c(d)))", "a(\"s\", 1)", "a(,)", "::a(x)", "unsafe(no_mangle)",
];

fn valid_lists(maxlen: usize) -> Vec<String> {
    let mut out = vec![String::new()];
    let mut frontier = vec![String::new()];
    for _ in 0..maxlen {
        let mut next = vec![];
        for f in &frontier {
            for it in ITEM_FORMS {
                next.push(if f.is_empty() { it.to_string() } else { format!("{f}, {it}") });
            }
        }
        out.extend(next.iter().cloned());
        frontier = next;
    }
    out
}

fn mutations(list: &str) -> Vec<String> {
    let Ok(ts) = list.parse::<TokenStream>() else { return vec![] };
    let toks: Vec<TokenTree> = ts.into_iter().collect();
    let render = |v: &[TokenTree]| v.iter().cloned().collect::<TokenStream>().to_string();
    let mut out = vec![];
    for i in 0..toks.len() {
        let mut d = toks.clone();
        d.remove(i);
        out.push(render(&d));
        let mut dup = toks.clone();
        dup.insert(i, toks[i].clone());
        out.push(render(&dup));
        if matches!(toks[i], TokenTree::Ident(_)) {
            let mut kw = toks.clone();
            kw[i] = TokenTree::Ident(proc_macro2::Ident::new("fn", proc_macro2::Span::call_site()));
            out.push(render(&kw));
        }
    }
    for i in 0..=toks.len() {
        for ins in [",", ";", "=", "::", "!", "-"] {
            let extra: Vec<TokenTree> = ins.parse::<TokenStream>().unwrap().into_iter().collect();
            let mut v = toks.clone();
            for (k, e) in extra.into_iter().enumerate() {
                v.insert(i + k, e);
            }
            out.push(render(&v));
        }
    }
    out
}

// ------------------------------------------------------------------ routing half

thread_local! {
    static LOG: RefCell<Vec<&'static str>> = const { RefCell::new(Vec::new()) };
    /// 0 = hooks return Ok, 1 = Err without span, 2 = Err with the preset span
    static MODE: Cell<u8> = const { Cell::new(0) };
    static PRESET: RefCell<Option<proc_macro2::Span>> = const { RefCell::new(None) };
    /// what the hook was handed, as text
    static ARG: RefCell<Option<String>> = const { RefCell::new(None) };
}

fn arg(text: String) {
    ARG.with(|a| *a.borrow_mut() = Some(text));
}
fn toks<T: quote::ToTokens>(v: &T) -> String {
    v.to_token_stream().to_string().chars().filter(|c| !c.is_whitespace()).collect()
}

fn hook<T>(name: &'static str, ok: T) -> darling::Result<T> {
    LOG.with(|l| l.borrow_mut().push(name));
    match MODE.with(|m| m.get()) {
        0 => Ok(ok),
        1 => Err(darling::Error::custom("hook-error")),
        // a bundle that has no span of its own although each member has one (what a derived
        // receiver with two rejected fields returns): the bundle gets the item's span, the
        // members keep theirs
        3 => {
            let sp = PRESET.with(|p| p.borrow().unwrap());
            Err(darling::Error::multiple(vec![darling::Error::custom("hook-error-1").with_span(&sp), darling::Error::custom("hook-error-2").with_span(&sp)]))
        }
        _ => {
            let sp = PRESET.with(|p| p.borrow().unwrap());
            Err(darling::Error::custom("hook-error").with_span(&sp))
        }
    }
}

macro_rules! probe_method {
    ($t:ident, word) => { fn from_word() -> darling::Result<Self> { arg(String::new()); hook("word", $t) } };
    ($t:ident, list) => { fn from_list(items: &[NestedMeta]) -> darling::Result<Self> { arg(items.iter().map(toks).collect::<Vec<_>>().join(",")); hook("list", $t) } };
    ($t:ident, bool) => { fn from_bool(v: bool) -> darling::Result<Self> { arg(v.to_string()); hook("bool", $t) } };
    ($t:ident, string) => { fn from_string(v: &str) -> darling::Result<Self> { arg(format!("{v:?}")); hook("string", $t) } };
    ($t:ident, char) => { fn from_char(v: char) -> darling::Result<Self> { arg(format!("{v:?}")); hook("char", $t) } };
    ($t:ident, value) => { fn from_value(v: &syn::Lit) -> darling::Result<Self> { arg(toks(v)); hook("value", $t) } };
    ($t:ident, expr) => { fn from_expr(v: &syn::Expr) -> darling::Result<Self> { arg(toks(v)); hook("expr", $t) } };
}
macro_rules! probe {
    ($t:ident: $($h:ident)*) => {
        pub struct $t;
        impl darling::FromMeta for $t { $(probe_method!($t, $h);)* }
    };
}
include!("c15_probes.rs");

#[derive(Clone, Copy, Debug, PartialEq)]
enum LitK {
    Bool,
    Str,
    Char,
    Other,
}

#[derive(Clone, Debug)]
enum Form {
    Word,
    List,
    /// name-value: literal kind (through `groups` invisible groups) or a non-literal expression
    NvLit(LitK, usize),
    NvExpr(usize),
    /// a bare literal item handed to from_nested_meta
    NestedLit(LitK),
}

const WORD: u8 = 1;
const LIST: u8 = 2;
const BOOL: u8 = 4;
const STRING: u8 = 8;
const CHAR: u8 = 16;
const VALUE: u8 = 32;
const EXPR: u8 = 64;

/// The documented chain: which overridden hook is reached (None = a default rejects).
fn route(mask: u8, f: &Form) -> Option<&'static str> {
    let lit = |k: LitK| -> Option<&'static str> {
        if mask & VALUE != 0 {
            return Some("value");
        }
        match k {
            LitK::Bool if mask & BOOL != 0 => Some("bool"),
            LitK::Str if mask & STRING != 0 => Some("string"),
            LitK::Char if mask & CHAR != 0 => Some("char"),
            _ => None,
        }
    };
    match f {
        Form::Word => (mask & WORD != 0).then_some("word"),
        Form::List => (mask & LIST != 0).then_some("list"),
        Form::NvLit(k, _) => {
            if mask & EXPR != 0 {
                Some("expr")
            } else {
                lit(*k)
            }
        }
        Form::NvExpr(_) => (mask & EXPR != 0).then_some("expr"),
        Form::NestedLit(k) => lit(*k),
    }
}

fn wrap_groups(e: syn::Expr, n: usize) -> syn::Expr {
    let mut e = e;
    for _ in 0..n {
        e = syn::Expr::Group(syn::ExprGroup { attrs: vec![], group_token: Default::default(), expr: Box::new(e) });
    }
    e
}

/// Histories on one thread: what a conversion answers for an item does not depend on how many
/// items were refused before it, and each attribute is located at its own tokens whatever was
/// looked at before.
fn history_probes(t: &mut Tally) {
    use syn::spanned::Spanned;
    // (1) k malformed lists, then a well-formed one - for k up to 1100 (counters and guards with
    // limits such as 64, 128, 256, 1024 would trip on the way)
    let ps = probes();
    let meta_of = |src: &str| -> syn::Meta { syn::parse_str::<syn::DeriveInput>(&format!("#[{src}] struct S;")).unwrap().attrs[0].meta.clone() };
    let good = [meta_of("v(a, b = 1)"), meta_of("v()"), meta_of("v(v(v(v(a))))")];
    let bad_lists = [meta_of("v(a b)"), meta_of("v(a = )"), meta_of("v(,)"), meta_of("v(a, , b)"), meta_of("v(=)")];
    for mask in [LIST, LIST | WORD | VALUE | EXPR, 0x7f] {
        let Some((_, via_meta, via_nested)) = ps.iter().find(|(m, _, _)| *m == mask) else { continue };
        MODE.with(|m| m.set(0));
        let mut refused = 0usize;
        for round in 0..1100usize {
            let b = &bad_lists[round % bad_lists.len()];
            LOG.with(|l| l.borrow_mut().clear());
            let r = catch(std::panic::AssertUnwindSafe(|| if round % 2 == 0 { via_meta(b) } else { via_nested(&NestedMeta::Meta(b.clone())) }));
            t.evaluations += 1;
            match r {
                Ok(Err(_)) => refused += 1,
                Ok(Ok(())) => {}
                Err(p) => t.violate(Violation { key: format!("C15 history mask={mask:#x} :: malformed list panicked: {p}"), what: format!("a malformed list after {round} others panicked: {p}"), case: json!({"engine": "history"}), detail: json!({}) }),
            }
            if [0usize, 1, 2, 7, 8, 15, 16, 31, 32, 63, 64, 65, 127, 128, 129, 255, 256, 257, 511, 512, 1023, 1024, 1025, 1099].contains(&round) {
                for g in &good {
                    LOG.with(|l| l.borrow_mut().clear());
                    let r = catch(std::panic::AssertUnwindSafe(|| via_meta(g)));
                    let log: Vec<&'static str> = LOG.with(|l| l.borrow().clone());
                    t.evaluations += 1;
                    t.nontrivial += 1;
                    t.hit("history_after_refusals");
                    if !matches!(r, Ok(Ok(()))) || log != ["list"] {
                        t.violate(Violation {
                            key: format!("C15 history mask={mask:#x} after={round} :: {r:?} {log:?}"),
                            what: format!("after {} refused lists on this thread a well-formed list `{}` is answered {:?} (hooks called {log:?}); the first one was accepted", round + 1, quote::ToTokens::to_token_stream(g), r.map(|x| x.map_err(|e| e.to_string()))),
                            case: json!({"engine": "history"}),
                            detail: json!({}),
                        });
                    }
                }
            }
        }
        if refused != 1100 {
            t.violate(Violation { key: format!("C15 history mask={mask:#x} :: refused {refused} of 1100"), what: format!("{refused} of 1100 malformed lists were refused"), case: json!({"engine": "history"}), detail: json!({}) });
        }
    }
    // (2) attributes turned into lists one after another: each list is located at its own attribute
    let src = "#[first] #[second(x)] #[third] #[a::fourth] #[fifth(y = 1)] #[sixth] struct S;";
    let di: syn::DeriveInput = syn::parse_str(src).unwrap();
    for pass in 0..2 {
        let order: Vec<usize> = if pass == 0 { (0..di.attrs.len()).collect() } else { (0..di.attrs.len()).rev().collect() };
        for i in order {
            let a = &di.attrs[i];
            t.evaluations += 1;
            t.hit("attribute_lists_located");
            let own = vrt::spans::cols(a.span());
            match catch(std::panic::AssertUnwindSafe(|| darling::util::parse_attribute_to_meta_list(a))) {
                Ok(Ok(list)) => {
                    let whole = vrt::spans::cols(list.span());
                    let delim = vrt::spans::cols(list.delimiter.span().join());
                    let path_ok = squash(list.path.to_token_stream().to_string()) == squash(a.path().to_token_stream().to_string());
                    let inside = |c: Option<(usize, usize)>| match (c, own) {
                        (Some(c), Some(o)) => vrt::spans::within(c, o),
                        _ => true,
                    };
                    if !path_ok || !inside(whole) || !inside(delim) {
                        t.violate(Violation {
                            key: format!("C15 attribute-list {i} pass={pass} :: {whole:?} {delim:?} {own:?}"),
                            what: format!("attribute {i} of `{src}` as a list: path ok = {path_ok}, list at {whole:?}, delimiters at {delim:?}, the attribute itself at {own:?}"),
                            case: json!({"engine": "history"}),
                            detail: json!({}),
                        });
                    }
                }
                Ok(Err(e)) => t.violate(Violation { key: format!("C15 attribute-list {i} refused"), what: format!("attribute {i} of `{src}` refused: {e}"), case: json!({"engine": "history"}), detail: json!({}) }),
                Err(p) => t.violate(Violation { key: format!("C15 attribute-list {i} panicked"), what: format!("attribute {i} of `{src}` panicked: {p}"), case: json!({"engine": "history"}), detail: json!({}) }),
            }
        }
    }
    vrt::spans::reset();
}

fn routing_sweep(t: &mut Tally) {
    let ps = probes();
    // source line with real columns for the un-grouped forms
    let forms: Vec<(String, Form)> = vec![
        ("v".into(), Form::Word),
        ("v()".into(), Form::List),
        ("v(a, b = 1)".into(), Form::List),
        // a list is a list whatever it holds: one literal, one word, one name-value
        ("v(\"s\")".into(), Form::List),
        ("v(5)".into(), Form::List),
        ("v(true)".into(), Form::List),
        ("v(\"s\",)".into(), Form::List),
        ("v(\"a\", \"b\")".into(), Form::List),
        ("v(a)".into(), Form::List),
        ("v(a = 1)".into(), Form::List),
        ("v(v)".into(), Form::List),
        ("v = true".into(), Form::NvLit(LitK::Bool, 0)),
        ("v = \"s\"".into(), Form::NvLit(LitK::Str, 0)),
        ("v = 'c'".into(), Form::NvLit(LitK::Char, 0)),
        ("v = 5".into(), Form::NvLit(LitK::Other, 0)),
        ("v = 1.5".into(), Form::NvLit(LitK::Other, 0)),
        ("v = b\"x\"".into(), Form::NvLit(LitK::Other, 0)),
        // a byte is not a character
        ("v = b'c'".into(), Form::NvLit(LitK::Other, 0)),
        ("v = b'c'".into(), Form::NvLit(LitK::Other, 1)),
        ("b'c'".into(), Form::NestedLit(LitK::Other)),
        ("b\"x\"".into(), Form::NestedLit(LitK::Other)),
        ("1.5".into(), Form::NestedLit(LitK::Other)),
        ("v = -5".into(), Form::NvLit(LitK::Other, 0)),
        ("v = -1.5".into(), Form::NvLit(LitK::Other, 0)),
        ("v = -5".into(), Form::NvLit(LitK::Other, 1)),
        // negated numbers of any magnitude / radix / suffix are literals
        ("v = -340282366920938463463374607431768211457".into(), Form::NvLit(LitK::Other, 0)),
        ("v = -170141183460469231731687303715884105728".into(), Form::NvLit(LitK::Other, 0)),
        ("v = -0x10".into(), Form::NvLit(LitK::Other, 0)),
        ("v = -5i8".into(), Form::NvLit(LitK::Other, 0)),
        ("v = -1e400".into(), Form::NvLit(LitK::Other, 0)),
        ("v = -0".into(), Form::NvLit(LitK::Other, 0)),
        ("v = c\"x\"".into(), Form::NvLit(LitK::Other, 0)),
        ("c\"x\"".into(), Form::NestedLit(LitK::Other)),
        ("v = a::b".into(), Form::NvExpr(0)),
        ("v = 1 + 2".into(), Form::NvExpr(0)),
        ("v = true".into(), Form::NvLit(LitK::Bool, 1)),
        ("v = \"s\"".into(), Form::NvLit(LitK::Str, 2)),
        ("v = 'c'".into(), Form::NvLit(LitK::Char, 1)),
        ("v = 5".into(), Form::NvLit(LitK::Other, 1)),
        ("v = a::b".into(), Form::NvExpr(1)),
        // operators in front of a literal: only a negated number is a literal
        ("v = !5".into(), Form::NvExpr(0)),
        ("v = *5".into(), Form::NvExpr(0)),
        ("v = &5".into(), Form::NvExpr(0)),
        ("v = !1.5".into(), Form::NvExpr(0)),
        ("v = *1.5".into(), Form::NvExpr(1)),
        ("v = !5".into(), Form::NvExpr(1)),
        ("v = -x".into(), Form::NvExpr(0)),
        ("v = !true".into(), Form::NvExpr(0)),
        ("v = -true".into(), Form::NvExpr(0)),
        ("v = -'c'".into(), Form::NvExpr(0)),
        ("v = -\"s\"".into(), Form::NvExpr(0)),
        ("v = -(5)".into(), Form::NvExpr(0)),
        ("v = (5)".into(), Form::NvExpr(0)),
        ("v = !-5".into(), Form::NvExpr(0)),
        ("\"s\"".into(), Form::NestedLit(LitK::Str)),
        ("true".into(), Form::NestedLit(LitK::Bool)),
        ("'c'".into(), Form::NestedLit(LitK::Char)),
        ("5".into(), Form::NestedLit(LitK::Other)),
    ];
    for (text, form) in &forms {
        // build the item
        let src = format!("#[w({text}, zz)] struct S;");
        let di: syn::DeriveInput = syn::parse_str(&src).unwrap();
        let list = di.attrs[0].meta.require_list().unwrap();
        let items = NestedMeta::parse_meta_list(list.tokens.clone()).unwrap();
        let mut item = items[0].clone();
        let groups = match form {
            Form::NvLit(_, g) | Form::NvExpr(g) => *g,
            _ => 0,
        };
        if groups > 0 {
            if let NestedMeta::Meta(syn::Meta::NameValue(nv)) = &mut item {
                nv.value = wrap_groups(nv.value.clone(), groups);
            }
        }
        use syn::spanned::Spanned;
        let item_cols = vrt::spans::cols(items[0].span());
        let preset: proc_macro2::Span = items[1].span();
        PRESET.with(|p| *p.borrow_mut() = Some(preset));
        for (mask, via_meta, via_nested) in &ps {
            for mode in 0..4u8 {
              for entry in 0..2u8 {
                // entry 0: from_meta (meta items only); entry 1: from_nested_meta
                if entry == 0 && !matches!(item, NestedMeta::Meta(_)) {
                    continue;
                }
                t.evaluations += 1;
                MODE.with(|m| m.set(mode));
                LOG.with(|l| l.borrow_mut().clear());
                let res = catch(std::panic::AssertUnwindSafe(|| match (&item, entry) {
                    (NestedMeta::Meta(m), 0) => via_meta(m),
                    (n, _) => via_nested(n),
                }));
                let log: Vec<&'static str> = LOG.with(|l| l.borrow().clone());
                let want = route(*mask, form);
                let label = format!("mask={mask:#09b} item=`{text}` groups={groups} mode={mode} entry={}", if entry == 0 { "from_meta" } else { "from_nested_meta" });
                let bad = |msg: String, t: &mut Tally| {
                    t.violate(Violation { key: format!("C15 routing {label} :: {msg}"), what: format!("probe overriding {:?} on `{text}`{}: {msg}", hooks_of(*mask), if groups > 0 { format!(" (value inside {groups} invisible group(s))") } else { String::new() }), case: json!({"engine": "routing", "mask": mask, "item": text, "groups": groups, "mode": mode}), detail: json!({}) })
                };
                let res = match res {
                    Ok(r) => r,
                    Err(p) => {
                        bad(format!("panicked: {p}"), t);
                        continue;
                    }
                };
                match want {
                    Some(h) => {
                        t.hit("expect_hook");
                        if log != [h] {
                            bad(format!("hooks called: {log:?}, expected exactly [{h}]"), t);
                            continue;
                        }
                        // the hook is handed what was written: the value's tokens (suffix, radix,
                        // sign and all), the list's items
                        let written: String = match form {
                            Form::Word => String::new(),
                            Form::List => {
                                let inner = text.trim_start_matches("v(").trim_end_matches(')').trim_end_matches(',');
                                inner.chars().filter(|c| !c.is_whitespace()).collect()
                            }
                            _ => text.strip_prefix("v = ").unwrap_or(text).chars().filter(|c| !c.is_whitespace()).collect(),
                        };
                        let handed = ARG.with(|a| a.borrow_mut().take()).unwrap_or_default();
                        if handed != written {
                            bad(format!("the {h} hook was handed `{handed}`, the item says `{written}`"), t);
                        }
                        match (mode, &res) {
                            (0, Ok(())) => {}
                            (0, Err(e)) => bad(format!("hook succeeded but the result is Err({e})"), t),
                            (_, Ok(())) => bad("hook failed but the result is Ok".into(), t),
                            (3, Err(e)) => {
                                match (e.explicit_span().and_then(vrt::spans::cols), item_cols) {
                                    (Some(s), Some(i)) if vrt::spans::within(s, i) => {}
                                    (None, _) => bad("a bundle the hook returned without a span of its own came back without one".into(), t),
                                    (s, i) => bad(format!("hook bundle came back with span {s:?}, outside the item {i:?}"), t),
                                }
                                let members: Vec<_> = e.clone().into_iter().map(|m| m.explicit_span().and_then(vrt::spans::cols)).collect();
                                if members.len() != 2 || members.iter().any(|m| *m != vrt::spans::cols(preset)) {
                                    bad(format!("members of the hook's bundle came back with spans {members:?}"), t);
                                }
                            }
                            (1, Err(e)) => {
                                // an unspanned hook error comes back carrying the item's span
                                match (e.explicit_span().and_then(vrt::spans::cols), item_cols) {
                                    // a word or a list has no narrower part the error could be about:
                                    // the span is the item's, from its first to its last token
                                    (Some(s), Some(i)) if matches!(form, Form::Word | Form::List) && s != i => bad(format!("hook error came back with span {s:?}, the item is at {i:?}"), t),
                                    (Some(s), Some(i)) if vrt::spans::within(s, i) => {}
                                    (None, _) => bad("hook error came back without a span".into(), t),
                                    (s, i) => bad(format!("hook error came back with span {s:?}, outside the item {i:?}"), t),
                                }
                            }
                            (_, Err(e)) => {
                                if e.explicit_span().and_then(vrt::spans::cols) != vrt::spans::cols(preset) {
                                    bad("a span the hook had already attached was replaced".into(), t);
                                }
                            }
                        }
                    }
                    None => {
                        t.hit("expect_default_rejection");
                        t.nontrivial += 1;
                        if !log.is_empty() {
                            bad(format!("hooks called: {log:?}, expected none (defaults reject this form)"), t);
                            continue;
                        }
                        match &res {
                            Ok(()) => bad("accepted although no overridden hook handles this form".into(), t),
                            Err(e) => {
                                let want_msg = match form {
                                    Form::Word => darling::Error::unsupported_format("word").to_string(),
                                    Form::List => darling::Error::unsupported_format("list").to_string(),
                                    Form::NvLit(LitK::Bool, _) | Form::NestedLit(LitK::Bool) => darling::Error::unexpected_type("bool").to_string(),
                                    Form::NvLit(LitK::Str, _) | Form::NestedLit(LitK::Str) => darling::Error::unexpected_type("string").to_string(),
                                    Form::NvLit(LitK::Char, _) | Form::NestedLit(LitK::Char) => darling::Error::unexpected_type("char").to_string(),
                                    // a non-literal expression is refused under its own kind (the whole
                                    // expression's, seen through invisible groups), not its operand's
                                    Form::NvExpr(_) => match &items[0] {
                                        NestedMeta::Meta(syn::Meta::NameValue(nv)) => darling::Error::unexpected_expr_type(&nv.value).to_string(),
                                        _ => String::new(),
                                    },
                                    _ => String::new(),
                                };
                                if !want_msg.is_empty() && e.to_string() != want_msg {
                                    bad(format!("default rejection says `{e}`, documented kind is `{want_msg}`"), t);
                                } else if want_msg.is_empty() && !e.to_string().starts_with("Unexpected type") {
                                    bad(format!("default rejection says `{e}`, expected an unexpected-type error"), t);
                                }
                                if e.explicit_span().is_none() {
                                    bad("default rejection carries no span".into(), t);
                                }
                            }
                        }
                    }
                }
              }
            }
        }
    }
}

fn hooks_of(mask: u8) -> Vec<&'static str> {
    ["word", "list", "bool", "string", "char", "value", "expr"].iter().enumerate().filter(|(i, _)| mask >> i & 1 == 1).map(|(_, h)| *h).collect()
}

pub fn main(args: &Args) {
    if let Some(p) = &args.replay {
        let c = crate::load_case(p);
        let mut t = Tally::default();
        if c["engine"] == "parser" {
            check_stream(c["text"].as_str().unwrap(), &mut t);
        } else {
            routing_sweep(&mut t);
            history_probes(&mut t);
            t.violations.retain(|v| v.case["mask"] == c["mask"] && v.case["item"] == c["item"] && v.case["mode"] == c["mode"]);
        }
        for v in &t.violations {
            println!("replay: {}", v.what);
        }
        println!("replay: {} violation(s)", t.violations.len());
        std::process::exit(if t.violations.is_empty() { 0 } else { 1 });
    }
    let mut rep = Report::new("C15", args.tier, "model_checking");
    let thorough = args.tier == vrt::Tier::Thorough;
    let lists = valid_lists(if thorough { 3 } else { 2 });
    let base_for_mutation: Vec<&String> = if thorough { lists.iter().filter(|l| l.matches(", ").count() <= 1).collect() } else { lists.iter().filter(|l| l.matches(", ").count() == 0 || l.len() % 7 == 0).collect() };
    let n_lists = lists.len();
    let n_base = base_for_mutation.len();
    let tl = lists
        .par_chunks(64)
        .map(|chunk| {
            let mut t = Tally::default();
            for l in chunk {
                check_stream(l, &mut t);
                check_stream(&format!("{l},"), &mut t);
                t.states += 2;
            }
            t
        })
        .reduce(Tally::default, Tally::merge);
    rep.absorb(tl);
    // long lists: the item forms in rotation (every starting offset), at lengths around the sizes
    // where buffers and counters change regime
    {
        let mut long: Vec<String> = vec![];
        for n in [5usize, 8, 9, 16, 17, 33, 65] {
            for off in 0..ITEM_FORMS.len() {
                long.push((0..n).map(|i| ITEM_FORMS[(off + i * 7) % ITEM_FORMS.len()]).collect::<Vec<_>>().join(", "));
            }
        }
        let tl = long
            .par_chunks(8)
            .map(|chunk| {
                let mut t = Tally::default();
                for l in chunk {
                    check_stream(l, &mut t);
                    check_stream(&format!("{l},"), &mut t);
                    t.states += 2;
                }
                t
            })
            .reduce(Tally::default, Tally::merge);
        rep.set("long_lists", json!(long.len() * 2));
        rep.absorb(tl);
    }
    let tl = base_for_mutation
        .par_iter()
        .map(|l| {
            let mut t = Tally::default();
            for m in mutations(l) {
                check_stream(&m, &mut t);
                t.states += 1;
            }
            t
        })
        .reduce(Tally::default, Tally::merge);
    rep.absorb(tl);
    let mut t = Tally::default();
    routing_sweep(&mut t);
    history_probes(&mut t);
    t.states += t.evaluations;
    rep.absorb(t);
    rep.tally.transitions = rep.tally.states;
    rep.tally.traces = rep.tally.evaluations;
    rep.set("generated_lists", json!(n_lists));
    rep.set("lists_mutated", json!(n_base));
    rep.rule = format!(
        "history probes: 1100 malformed lists alternating with well-formed ones on one thread (a well-formed list is answered as the first time after 1, 2, 8, .. 1025 refusals), six attributes turned into lists in both orders (each located at its own tokens). parser: every list of 0..{} items over 46 item forms (all literal kinds incl. negative numbers and byte strings; paths incl. `::a::b`, keywords, raw identifiers; name-values with 11 expression forms incl. turbofish / closure commas and `true = 1`; lists nested to depth 3; `a(,)`), with and without a trailing comma, and every single-token mutation (delete, duplicate, insert one of , ; = :: ! -, identifier -> keyword) of {n_base} of them, (plus lists of 5..65 items with the forms in rotation from every offset) against an independent recogniser (all segmentations at commas into chunks that are wholly a syn::Lit or a syn::Meta): accept/reject, item count, order, class, token text, print/re-parse identity. routing: 128 probe types (every subset of the seven hooks overridden) x 58 item forms (word, lists incl. one-literal lists, name-value with each literal kind incl. byte / byte-string / C-string / negated numbers, operators in front of literals and other non-literal expressions, values inside 1-2 invisible groups, bare literal members) x 4 hook behaviours (Ok, unspanned Err, pre-spanned Err, unspanned bundle of spanned members) against the documented priority chain: exactly one hook (the outermost overridden on the chain) or a default rejection of the documented kind; errors come back with the item's span unless already spanned (for a word or a list exactly the item's span, for a name-value a span inside the item). states = token streams / (probe, item, behaviour) triples.",
        if thorough { 3 } else { 2 }
    );
    rep.assumptions = vec!["syn::Lit / syn::Meta parsing of a whole chunk defines what an item is".into()];
    rep.tally.samples.push(json!({"stream": "a = f::<x, y>(), true = 1, true, -5", "expect": "4 items: meta, meta, literal, literal"}));
    rep.tally.samples.push(json!({"probe": "overrides {string, expr}", "item": "v = \"s\"", "expect": "exactly [expr]"}));
    rep.require_counter("accepted");
    rep.require_counter("rejected");
    rep.require_counter("expect_hook");
    rep.require_counter("expect_default_rejection");
    rep.finish()
}
