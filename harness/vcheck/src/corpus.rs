//! Corpus pipeline: generate receiver crates from vmodel enumerations, build them against the
//! working tree, run their explorers, merge the tallies.
use std::path::{Path, PathBuf};
use std::process::Command;
use vmodel::ir::{Program, Trait};
use vrt::{Tally, Tier};

pub fn harness_dir() -> PathBuf {
    vrt::verif_dir().join("harness")
}

pub fn write_if_changed_pub(p: &Path, content: &str) {
    write_if_changed(p, content)
}

fn write_if_changed(p: &Path, content: &str) {
    if std::fs::read_to_string(p).ok().as_deref() != Some(content) {
        std::fs::create_dir_all(p.parent().unwrap()).ok();
        std::fs::write(p, content).unwrap_or_else(|e| vrt::machinery(&format!("write {}: {e}", p.display())));
    }
}

pub fn runner_path(t: Trait) -> &'static str {
    match t {
        Trait::FromMeta => "vrt::run::run_from_meta",
        Trait::FromDeriveInput => "vrt::run::run_from_derive_input",
        Trait::FromField => "vrt::run::run_from_field",
        Trait::FromVariant => "vrt::run::run_from_variant",
        Trait::FromTypeParam => "vrt::run::run_from_type_param",
        Trait::FromAttributes => "vrt::run::run_from_attributes",
    }
}

pub struct CorpusSpec {
    /// crate name prefix, e.g. `struct_q`
    pub name: String,
    /// Rust expression (evaluated in the generated crate) yielding the same Vec<Program>
    pub programs_expr: String,
    pub programs: Vec<Program>,
    pub shards: usize,
    /// body of main: receives `entries: Vec<vrt::explore::Entry>`
    pub main_call: String,
    /// build darling with its `suggestions` feature
    pub suggestions: bool,
}

/// Writes the shard crates (only files whose content changed) and returns their package names.
pub fn generate(spec: &CorpusSpec) -> Vec<String> {
    let n = spec.programs.len();
    let shards = spec.shards.min(n.max(1));
    let per = (n + shards - 1) / shards;
    let mut names = vec![];
    for k in 0..shards {
        let lo = k * per;
        let hi = ((k + 1) * per).min(n);
        if lo >= hi {
            break;
        }
        let pkg = format!("{}_{k}", spec.name);
        let dir = harness_dir().join("gen").join(&pkg);
        let toml = format!(
            "[package]\nname = \"{pkg}\"\nversion = \"0.0.0\"\nedition = \"2021\"\n[dependencies]\nvmodel = {{ path = \"../../vmodel\" }}\nvrt = {{ path = \"../../vrt\" }}\ndarling = {{ workspace = true{} }}\nsyn = {{ workspace = true }}\n",
            if spec.suggestions { ", features = [\"suggestions\"]" } else { "" }
        );
        write_if_changed(&dir.join("Cargo.toml"), &toml);
        let mut src = String::from("#![allow(dead_code, non_snake_case, unused_variables, unused_mut, non_camel_case_types, clippy::all)]\n");
        for i in lo..hi {
            src.push_str(&vmodel::print::print_program(&spec.programs[i], i));
        }
        src.push_str("fn entries() -> Vec<vrt::explore::Entry> {\n");
        src.push_str(&format!("    let all: Vec<vmodel::ir::Program> = {};\n", spec.programs_expr));
        src.push_str("    let mut v = vec![];\n");
        for i in lo..hi {
            let p = &spec.programs[i];
            src.push_str(&format!(
                "    v.push(vrt::explore::Entry {{ prog: all[{i}].clone(), run: {}::<p{i}::R{}>, aux: {} }});\n",
                runner_path(p.root_trait()),
                p.root,
                if p.root_trait() == Trait::FromMeta { format!("Some(vrt::run::run_from_none::<p{i}::R{}>)", p.root) } else { "None".to_string() }
            ));
        }
        src.push_str("    v\n}\n");
        src.push_str(&format!("fn main() {{ let entries = entries(); {} }}\n", spec.main_call));
        write_if_changed(&dir.join("src/main.rs"), &src);
        names.push(pkg);
    }
    names
}

/// `cargo build` the given packages; Err(stderr tail) on failure.
pub fn build(pkgs: &[String]) -> Result<(), String> {
    let mut cmd = Command::new("cargo");
    cmd.current_dir(harness_dir()).arg("build").arg("--offline").arg("-q");
    for p in pkgs {
        cmd.arg("-p").arg(p);
    }
    cmd.env("CARGO_NET_OFFLINE", "true");
    let out = cmd.output().unwrap_or_else(|e| vrt::machinery(&format!("cargo: {e}")));
    if out.status.success() {
        Ok(())
    } else {
        Err(String::from_utf8_lossy(&out.stderr).to_string())
    }
}

pub fn bin_path(pkg: &str) -> PathBuf {
    harness_dir().join("target/debug").join(pkg)
}

/// Runs every shard's explorer and merges the tallies.
pub fn run_shards(pkgs: &[String], prop: &str, tier: Tier, extra: &[String]) -> Tally {
    let mut total = Tally::default();
    let tmp = harness_dir().join("target/tmp");
    std::fs::create_dir_all(&tmp).ok();
    for (k, pkg) in pkgs.iter().enumerate() {
        let out = tmp.join(format!("{pkg}.{prop}.{}.tally.json", std::process::id()));
        let st = Command::new(bin_path(pkg))
            .args(["--prop", prop, "--tier", tier.name(), "--shard", &k.to_string(), "--out", out.to_str().unwrap()])
            .args(extra)
            .status()
            .unwrap_or_else(|e| vrt::machinery(&format!("run {pkg}: {e}")));
        if !st.success() {
            vrt::machinery(&format!("corpus shard {pkg} exited with {st}"));
        }
        let txt = std::fs::read_to_string(&out).unwrap_or_else(|e| vrt::machinery(&format!("tally {pkg}: {e}")));
        let _ = std::fs::remove_file(&out);
        let t: Tally = serde_json::from_str(&txt).unwrap_or_else(|e| vrt::machinery(&format!("tally {pkg}: {e}")));
        total = total.merge(t);
    }
    total
}

pub fn struct_corpus(tier: Tier) -> CorpusSpec {
    let thorough = tier == Tier::Thorough;
    CorpusSpec {
        name: format!("struct_{}", if thorough { "t" } else { "q" }),
        programs_expr: format!("vmodel::corpus::small_corpus({thorough})"),
        programs: vmodel::corpus::small_corpus(thorough),
        shards: if thorough { 16 } else { 8 },
        main_call: "vrt::explore::main(entries);".into(),
        suggestions: true,
    }
}

pub fn enum_corpus(tier: Tier) -> CorpusSpec {
    let thorough = tier == Tier::Thorough;
    CorpusSpec {
        name: format!("enum_{}", if thorough { "t" } else { "q" }),
        programs_expr: format!("vmodel::corpus::enum_corpus({thorough})"),
        programs: vmodel::corpus::enum_corpus(thorough),
        shards: if thorough { 16 } else { 8 },
        main_call: "vrt::explore::main(entries);".into(),
        suggestions: true,
    }
}

pub fn attr_corpus(tier: Tier) -> CorpusSpec {
    let thorough = tier == Tier::Thorough;
    CorpusSpec {
        name: format!("attr_{}", if thorough { "t" } else { "q" }),
        programs_expr: format!("vmodel::corpus::attr_corpus({thorough})"),
        programs: vmodel::corpus::attr_corpus(thorough),
        shards: 8,
        main_call: "vrt::explore::main(entries);".into(),
        suggestions: true,
    }
}

pub fn sugg_corpus(on: bool) -> CorpusSpec {
    CorpusSpec {
        name: format!("sugg_{}", if on { "on" } else { "off" }),
        programs_expr: "vmodel::corpus::sugg_corpus()".into(),
        programs: vmodel::corpus::sugg_corpus(),
        shards: 1,
        main_call: "vrt::explore::main(entries);".into(),
        suggestions: on,
    }
}

pub fn clash_corpus() -> CorpusSpec {
    CorpusSpec {
        name: "clash".into(),
        programs_expr: "vmodel::corpus::clash_corpus()".into(),
        programs: vmodel::corpus::clash_corpus(),
        shards: 8,
        main_call: "vrt::explore::main(entries);".into(),
        suggestions: true,
    }
}

pub fn wide_corpus(tier: Tier) -> CorpusSpec {
    let thorough = tier == Tier::Thorough;
    CorpusSpec {
        name: format!("wide_{}", if thorough { "t" } else { "q" }),
        programs_expr: format!("vmodel::corpus::wide_corpus({thorough})"),
        programs: vmodel::corpus::wide_corpus(thorough),
        shards: if thorough { 16 } else { 8 },
        main_call: "vrt::explore::main(entries);".into(),
        suggestions: true,
    }
}

pub fn all_specs(tier: Tier) -> Vec<CorpusSpec> {
    vec![struct_corpus(tier), enum_corpus(tier), attr_corpus(tier), wide_corpus(tier)]
}
