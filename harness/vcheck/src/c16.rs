//! C16 — magic fields and body conversion: template-generated receivers (every subset of the
//! magic fields per trait, plus wrapped flavors) explored by vrt::body.
use crate::corpus::*;
use crate::Args;
use serde_json::json;
use vrt::{Report, Tier};

struct Recv {
    name: String,
    tr8: &'static str,
    magic: Vec<&'static str>,
    flavor: &'static str,
    /// type the runner is instantiated with
    run_ty: String,
}

fn magic_ty(tr8: &str, m: &str, flavor: &str) -> String {
    match (tr8, m) {
        ("FromField", "ident") => "Option<syn::Ident>".into(),
        (_, "ident") => "syn::Ident".into(),
        (_, "vis") => "syn::Visibility".into(),
        (_, "ty") => "syn::Type".into(),
        (_, "attrs") => "Vec<syn::Attribute>".into(),
        (_, "discriminant") => "Option<syn::Expr>".into(),
        (_, "fields") if flavor == "fields_builtin" => "darling::ast::Fields<syn::Type>".into(),
        (_, "fields") => "darling::ast::Fields<F15>".into(),
        (_, "bounds") => "Vec<syn::TypeParamBound>".into(),
        (_, "default") => "Option<syn::Type>".into(),
        (_, "generics") => match flavor {
            "gen_ast" => "darling::ast::Generics<darling::ast::GenericParam<T15>>".into(),
            "gen_orig" => "darling::util::WithOriginal<darling::ast::Generics<darling::ast::GenericParam<T15>>, syn::Generics>".into(),
            "gen_result" => "darling::Result<darling::ast::Generics<darling::ast::GenericParam<T15>>>".into(),
            _ => "syn::Generics".into(),
        },
        (_, "data") => match flavor {
            "data_wrapped" => "darling::ast::Data<darling::util::SpannedValue<V15>, darling::util::WithOriginal<F15, syn::Field>>".into(),
            // the library's own element receivers: a variant's identifier, a field's type
            "data_builtin" => "darling::ast::Data<syn::Ident, syn::Type>".into(),
            _ => "darling::ast::Data<V15, F15>".into(),
        },
        _ => panic!("magic {m}"),
    }
}

fn recv_source(r: &Recv) -> String {
    let mut s = String::new();
    let fwd = if r.magic.contains(&"attrs") { ", forward_attrs(doc)" } else { "" };
    let fwd = match r.flavor.strip_prefix("supports:") {
        Some(words) => format!("{fwd}, supports({})", words.replace(',', ", ")),
        None => fwd.to_string(),
    };
    let fwd = if r.flavor == "from_ident" { format!("{fwd}, from_ident") } else { fwd };
    s.push_str(&format!("#[derive(Debug, darling::{})]\n#[darling(attributes(a){fwd})]\npub struct {} {{\n", r.tr8, r.name));
    for m in &r.magic {
        let with = if *m == "data" && r.flavor == "data_with" { "#[darling(with = data_conv)] " } else { "" };
        s.push_str(&format!("    {with}pub {m}: {},\n", magic_ty(r.tr8, m, r.flavor)));
    }
    if r.flavor == "from_ident" {
        // no field-level default: when `k` is absent the `From<Ident>` value supplies it
        s.push_str("    pub k: Option<u32>,\n}\n");
        if r.tr8 == "FromField" {
            s.push_str(&format!("impl From<Option<syn::Ident>> for {} {{ fn from(_i: Option<syn::Ident>) -> Self {{ {} {{ ident: Some(syn::parse_str::<syn::Ident>(\"changed\").unwrap()), k: Some(99) }} }} }}\n", r.name, r.name));
        } else {
            s.push_str(&format!("impl From<syn::Ident> for {} {{ fn from(i: syn::Ident) -> Self {{ {} {{ ident: syn::Ident::new(\"changed\", i.span()), k: Some(99) }} }} }}\n", r.name, r.name));
        }
        // a `Default` impl exists as well and must not be what fills `k`
        let dflt_ident = if r.tr8 == "FromField" { "None" } else { "syn::parse_str::<syn::Ident>(\"dflt\").unwrap()" };
        s.push_str(&format!("impl Default for {} {{ fn default() -> Self {{ {} {{ ident: {dflt_ident}, k: Some(7) }} }} }}\n", r.name, r.name));
    } else {
        s.push_str("    #[darling(default)] pub k: Option<u32>,\n}\n");
    }
    let parts: Vec<String> = r.magic.iter().map(|m| format!("(String::from(\"{m}\"), vrt::ToVal::to_val(&self.{m}))")).collect();
    let mut all = parts;
    all.push("(String::from(\"k\"), vrt::ToVal::to_val(&self.k))".into());
    s.push_str(&format!("impl vrt::ToVal for {} {{ fn to_val(&self) -> vmodel::ir::Val {{ vmodel::ir::Val::Rec(vec![{}]) }} }}\n", r.name, all.join(", ")));
    s
}

fn subsets(tr8: &'static str, prefix: &str, all: [&'static str; 4]) -> Vec<Recv> {
    let mut v = vec![];
    for mask in 0..16usize {
        let magic: Vec<&'static str> = (0..4).filter(|i| mask >> i & 1 == 1).map(|i| all[i]).collect();
        v.push(Recv { name: format!("{prefix}{mask}"), tr8, magic, flavor: "plain", run_ty: format!("{prefix}{mask}") });
    }
    v.push(Recv { name: format!("{prefix}15"), tr8, magic: all.to_vec(), flavor: "spanned", run_ty: format!("darling::util::SpannedValue<{prefix}15>") });
    let orig = match tr8 {
        "FromField" => "syn::Field",
        "FromVariant" => "syn::Variant",
        _ => "syn::TypeParam",
    };
    v.push(Recv { name: format!("{prefix}15"), tr8, magic: all.to_vec(), flavor: "original", run_ty: format!("darling::util::WithOriginal<{prefix}15, {orig}>") });
    v
}

fn receivers() -> (Vec<Recv>, Vec<Recv>) {
    let mut elems = vec![];
    elems.extend(subsets("FromField", "F", ["ident", "vis", "ty", "attrs"]));
    elems.extend(subsets("FromVariant", "V", ["ident", "discriminant", "fields", "attrs"]));
    elems.extend(subsets("FromTypeParam", "T", ["ident", "bounds", "default", "attrs"]));
    // FromVariant receivers that combine supports(..) with the body members
    for (i, words) in ["unit,newtype", "newtype,unit", "named", "tuple", "any", "unit", "named,tuple,newtype"].iter().enumerate() {
        let flavor: &'static str = Box::leak(format!("supports:{words}").into_boxed_str());
        elems.push(Recv { name: format!("VS{i}"), tr8: "FromVariant", magic: vec!["ident", "discriminant", "fields", "attrs"], flavor, run_ty: format!("VS{i}") });
        elems.push(Recv { name: format!("VT{i}"), tr8: "FromVariant", magic: vec!["fields"], flavor, run_ty: format!("VT{i}") });
    }
    elems.push(Recv { name: "VB0".into(), tr8: "FromVariant", magic: vec!["ident", "fields"], flavor: "fields_builtin", run_ty: "VB0".into() });
    // `from_ident` next to the `ident` magic member: the member still receives the input's
    // identifier, the other members come from the `From<Ident>` value
    elems.push(Recv { name: "FI0".into(), tr8: "FromField", magic: vec!["ident"], flavor: "from_ident", run_ty: "FI0".into() });
    elems.push(Recv { name: "VI0".into(), tr8: "FromVariant", magic: vec!["ident"], flavor: "from_ident", run_ty: "VI0".into() });
    elems.push(Recv { name: "TI0".into(), tr8: "FromTypeParam", magic: vec!["ident"], flavor: "from_ident", run_ty: "TI0".into() });
    let all = ["ident", "vis", "generics", "data", "attrs"];
    let mut dis = vec![];
    dis.push(Recv { name: "DI0".into(), tr8: "FromDeriveInput", magic: vec!["ident"], flavor: "from_ident", run_ty: "DI0".into() });
    for mask in 0..32usize {
        let magic: Vec<&'static str> = (0..5).filter(|i| mask >> i & 1 == 1).map(|i| all[i]).collect();
        dis.push(Recv { name: format!("D{mask}"), tr8: "FromDeriveInput", magic, flavor: "plain", run_ty: format!("D{mask}") });
    }
    for (i, fl) in ["gen_ast", "gen_orig", "gen_result", "data_wrapped", "data_with", "data_builtin"].iter().enumerate() {
        dis.push(Recv { name: format!("DX{i}"), tr8: "FromDeriveInput", magic: all.to_vec(), flavor: fl, run_ty: format!("DX{i}") });
        let only: Vec<&'static str> = if fl.starts_with("gen") { vec!["generics"] } else { vec!["data"] };
        dis.push(Recv { name: format!("DY{i}"), tr8: "FromDeriveInput", magic: only, flavor: fl, run_ty: format!("DY{i}") });
    }
    // the whole receiver inside the library's wrappers: the item's own range / the item itself
    dis.push(Recv { name: "DS0".into(), tr8: "FromDeriveInput", magic: all.to_vec(), flavor: "spanned", run_ty: "darling::util::SpannedValue<DS0>".into() });
    dis.push(Recv { name: "DS1".into(), tr8: "FromDeriveInput", magic: vec![], flavor: "spanned", run_ty: "darling::util::SpannedValue<DS1>".into() });
    dis.push(Recv { name: "DO0".into(), tr8: "FromDeriveInput", magic: vec!["ident", "generics"], flavor: "original", run_ty: "darling::util::WithOriginal<DO0, syn::DeriveInput>".into() });
    (elems, dis)
}

fn runner_for(tr8: &str) -> &'static str {
    match tr8 {
        "FromDeriveInput" => "vrt::run::run_from_derive_input",
        "FromField" => "vrt::run::run_from_field",
        "FromVariant" => "vrt::run::run_from_variant",
        _ => "vrt::run::run_from_type_param",
    }
}

pub fn generate_body(tier: Tier) -> Vec<String> {
    let _ = tier;
    let (elems, dis) = receivers();
    let shards = 4;
    let per = (dis.len() + shards - 1) / shards;
    let mut names = vec![];
    for k in 0..shards {
        let pkg = format!("body_{k}");
        let dir = harness_dir().join("gen").join(&pkg);
        let toml = format!(
            "[package]\nname = \"{pkg}\"\nversion = \"0.0.0\"\nedition = \"2021\"\n[dependencies]\nvmodel = {{ path = \"../../vmodel\" }}\nvrt = {{ path = \"../../vrt\" }}\ndarling = {{ workspace = true, features = [\"suggestions\"] }}\nsyn = {{ workspace = true }}\n"
        );
        write_if_changed_pub(&dir.join("Cargo.toml"), &toml);
        let mut src = String::from("#![allow(dead_code, non_snake_case, unused_variables, non_camel_case_types)]\n");
        src.push_str("fn data_conv(d: &syn::Data) -> darling::Result<darling::ast::Data<V15, F15>> { darling::ast::Data::try_from(d) }\n");
        let mut seen = std::collections::HashSet::new();
        for r in &elems {
            if seen.insert(r.name.clone()) {
                src.push_str(&recv_source(r));
            }
        }
        let mine: Vec<&Recv> = dis.iter().skip(k * per).take(per).collect();
        for r in &mine {
            src.push_str(&recv_source(r));
        }
        src.push_str("fn entries() -> Vec<vrt::body::BodyEntry> {\n    let mut v = vec![];\n");
        let reg = |r: &Recv, src: &mut String| {
            src.push_str(&format!(
                "    v.push(vrt::body::BodyEntry {{ name: String::from(\"{}/{}\"), tr8: vmodel::ir::Trait::{}, magic: vec![{}], flavor: String::from(\"{}\"), run: {}::<{}> }});\n",
                r.name,
                r.flavor,
                r.tr8,
                r.magic.iter().map(|m| format!("String::from(\"{m}\")")).collect::<Vec<_>>().join(", "),
                r.flavor,
                runner_for(r.tr8),
                r.run_ty
            ));
        };
        if k == 0 {
            for r in &elems {
                reg(r, &mut src);
            }
        }
        for r in &mine {
            reg(r, &mut src);
        }
        src.push_str("    v\n}\nfn main() { vrt::body::main(entries()); }\n");
        write_if_changed_pub(&dir.join("src/main.rs"), &src);
        names.push(pkg);
    }
    names
}

pub fn main(args: &Args) {
    let pkgs = generate_body(args.tier);
    if let Some(p) = &args.replay {
        let case = crate::load_case(p);
        let shard = case["shard"].as_u64().unwrap_or(0) as usize;
        if let Err(e) = build(&pkgs[shard..=shard]) {
            vrt::machinery(&format!("corpus build failed:\n{e}"));
        }
        let st = std::process::Command::new(bin_path(&pkgs[shard])).args(["--replay", p]).status().unwrap();
        std::process::exit(st.code().unwrap_or(2));
    }
    let mut rep = Report::new("C16", args.tier, "exploration");
    if let Err(e) = build(&pkgs) {
        vrt::machinery(&format!("corpus build failed:\n{}", e.chars().take(3000).collect::<String>()));
    }
    let t = run_shards(&pkgs, "C16", args.tier, &[]);
    rep.absorb(t);
    rep.rule = format!(
        "(bodies also at 6, 9, 17 members with the forms in rotation; flavours built on the library's own element receivers and on from_ident) receivers: every subset of the magic fields for FromDeriveInput (32), FromField / FromVariant / FromTypeParam (16 each), plus wrapped flavors (whole receiver in SpannedValue / WithOriginal; generics as ast::Generics<GenericParam<_>>, WithOriginal<_, syn::Generics>, Result<_>; data with wrapped members and with a custom `with` converter). Inputs: every struct with 0..{} named or tuple fields over 6 field forms (visibility x type x attribute forms incl. failing ones), unit structs, every enum of 0..{} variants over 8 variant forms (all styles, discriminants, failing attributes), unions, x 5 generics forms x 5 container heads. Oracle: each magic member token-equal to the corresponding part of the syn parse of the same source; data/fields kind, style, count, order; failing elements reported exactly (named fields located by name), attribute layer before body; re-printed field lists equal the original up to a trailing comma. Non-trivial = inputs with at least one failing element or a union.",
        args.tier.pick(3, 4),
        args.tier.pick(2, 3)
    );
    rep.assumptions = vec!["expectations are computed from syn's parse of the same source text".into()];
    rep.require_counter("expect_ok");
    rep.require_counter("expect_err");
    rep.require_counter("reprint_checked");
    rep.require(rep.tally.counters.get("receivers").copied().unwrap_or(0) >= 90, "not every receiver ran");
    rep.require(rep.tally.counters.get("generator_unparseable").is_none(), "generator produced unparseable sources");
    rep.set("receivers", json!(rep.tally.counters.get("receivers")));
    rep.finish()
}
