//! C08 — attribute selection, merging across attributes, forwarding.
use crate::corpus::*;
use crate::Args;
use serde_json::json;
use vrt::Report;

pub fn main(args: &Args) {
    let spec = attr_corpus(args.tier);
    let pkgs = generate(&spec);
    if let Some(p) = &args.replay {
        let case = crate::load_case(p);
        let shard = case["shard"].as_u64().unwrap_or(0) as usize;
        if let Err(e) = build(&pkgs[shard..=shard]) {
            vrt::machinery(&format!("corpus build failed:\n{e}"));
        }
        let st = std::process::Command::new(bin_path(&pkgs[shard])).args(["--prop", "C08", "--replay", p]).status().unwrap();
        std::process::exit(st.code().unwrap_or(2));
    }
    let mut rep = Report::new("C08", args.tier, "model_checking");
    if let Err(e) = build(&pkgs) {
        vrt::machinery(&format!("corpus build failed:\n{}", e.chars().take(3000).collect::<String>()));
    }
    let t = run_shards(&pkgs, "C08", args.tier, &[]);
    rep.absorb(t);
    rep.set("programs", json!(spec.programs.len()));
    rep.rule = format!(
        "{} element-level receivers (5 traits x attribute-name sets [a], [a,b], [a,c::d,e::f] x forward_attrs absent / bare / (doc, allow) / () / with multi-segment names; flatten-only, member-less and forwarding-only receivers; forward lists overlapping the claimed names) with fields u32, Option, multiple, nested. Also: every baseline with its values in one and two invisible groups, in inner style for FromAttributes, and 5..33 occurrences of the multiple member spread one or two per attribute under every rotation of the names. For every item sequence of length 0..{} over a 9-symbol alphabet (valid and invalid items): the single-attribute spelling is the reference run; then every partition into consecutive attributes x every assignment of declared attribute names, and every insertion of one of 11 unrelated attributes (doc, cfg, derive, arbitrary token bodies, bare and empty declared names, `::a`, `a::a`) at every position (two in the thorough tier): value or error list (messages, paths, count) must be identical, and the `attrs` member must hold exactly the attributes a reference filter selects, token-identical and in source order. states = item sequences; transitions = derived spellings executed; non-trivial = sequences whose reference run is an error.",
        spec.programs.len(),
        args.tier.pick(3, 4)
    );
    rep.assumptions = vec!["the single-attribute behaviour itself is checked by C01/C02".into()];
    rep.tally.samples.push(json!({"receiver": "attrs FromField names=[a, b] fwd=All", "src": "struct W { #[a(alpha = 5)] #[doc = \"x\"] #[b(m = 1, m = \"bad\")] pub foo: Vec<u8>, other: u8 }", "reference": "struct W { #[a(alpha = 5, m = 1, m = \"bad\")] pub foo: Vec<u8>, other: u8 }"}));
    rep.require_counter("baseline_ok");
    rep.require_counter("baseline_err");
    rep.require_counter("forwarding_checked");
    rep.require_counter("forwarding_nonempty");
    rep.require(rep.tally.counters.get("generator_unparseable").is_none(), "generator produced unparseable sources");
    rep.finish()
}
