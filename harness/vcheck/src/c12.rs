//! C12 — wrapper transparency. Differential: `W<T>::from_meta(m)` against what the wrapper chain
//! must make of `T::from_meta(m)`, for single wrappers and two-level compositions.
use crate::Args;
use darling::util::{Flag, Override, PathList, SpannedValue, WithOriginal};
use darling::FromMeta;
use quote::ToTokens;
use serde_json::json;
use std::cell::RefCell;
use std::collections::HashMap;
use std::rc::Rc;
use std::sync::Arc;
use vrt::{catch, Report, Tally, Violation};

#[derive(Debug, FromMeta, PartialEq)]
pub struct DS {
    a: u8,
    #[darling(default)]
    b: Option<String>,
    /// nested receiver: errors at two depths
    #[darling(default)]
    n: Option<DN>,
}
#[derive(Debug, FromMeta, PartialEq)]
pub struct DN {
    c: u8,
    d: u8,
}
#[derive(Debug, FromMeta, PartialEq)]
pub enum DE {
    Uno,
    Duo(u8),
}

/// What an Ok value carries, in terms of the innermost target's outcome.
#[derive(Debug, Clone, PartialEq)]
pub enum Carried {
    Val(String),
    InnerErr(Vec<String>),
    Inherit,
    OriginalMeta(String),
}

pub trait W12: FromMeta {
    fn carried(&self) -> Carried;
}
macro_rules! base {
    ($($t:ty => |$x:ident| $e:expr),* $(,)?) => { $(impl W12 for $t { fn carried(&self) -> Carried { let $x = self; Carried::Val($e) } })* };
}
base!(
    bool => |x| x.to_string(),
    u8 => |x| x.to_string(),
    i64 => |x| x.to_string(),
    String => |x| format!("{x:?}"),
    char => |x| format!("{x:?}"),
    syn::Path => |x| x.to_token_stream().to_string(),
    syn::Ident => |x| x.to_string(),
    syn::Expr => |x| x.to_token_stream().to_string(),
    syn::LitStr => |x| x.to_token_stream().to_string(),
    PathList => |x| x.iter().map(|p| p.to_token_stream().to_string()).collect::<Vec<_>>().join(","),
    DS => |x| format!("{x:?}"),
    DE => |x| format!("{x:?}"),
    Flag => |x| x.is_present().to_string(),
);
impl W12 for HashMap<String, String> {
    fn carried(&self) -> Carried {
        let mut v: Vec<_> = self.iter().map(|(k, v)| format!("{k}={v}")).collect();
        v.sort();
        Carried::Val(v.join(","))
    }
}
impl<T: W12> W12 for Option<T> {
    fn carried(&self) -> Carried {
        match self {
            Some(v) => v.carried(),
            None => Carried::Val("<None>".into()),
        }
    }
}
macro_rules! ptr {
    ($($w:ident),*) => { $(impl<T: W12> W12 for $w<T> { fn carried(&self) -> Carried { (**self).carried() } })* };
}
ptr!(Box, Rc, Arc);
impl<T: W12> W12 for RefCell<T> {
    fn carried(&self) -> Carried {
        self.borrow().carried()
    }
}
impl<T: W12> W12 for SpannedValue<T> {
    fn carried(&self) -> Carried {
        (**self).carried()
    }
}
impl<T: W12> W12 for WithOriginal<T, syn::Meta> {
    fn carried(&self) -> Carried {
        self.parsed.carried()
    }
}
impl<T: W12> W12 for Override<T> {
    fn carried(&self) -> Carried {
        match self {
            Override::Inherit => Carried::Inherit,
            Override::Explicit(v) => v.carried(),
        }
    }
}
/// Signature of an error: its own (unflattened) rendering and leaf count, then every leaf with
/// its span. "T's error" means the same tree, not only the same leaves.
fn leaves(e: &darling::Error) -> Vec<String> {
    let mut v = vec![format!("whole: {e} len={}", e.len())];
    v.extend(e.clone().flatten().into_iter().map(|l| format!("{l} @{:?}", l.explicit_span().and_then(vrt::spans::cols))));
    v
}
impl<T: W12> W12 for darling::Result<T> {
    fn carried(&self) -> Carried {
        match self {
            Ok(v) => v.carried(),
            Err(e) => Carried::InnerErr(leaves(e)),
        }
    }
}
impl<T: W12> W12 for Result<T, syn::Meta> {
    fn carried(&self) -> Carried {
        match self {
            Ok(v) => v.carried(),
            Err(m) => Carried::OriginalMeta(format!("{m:?}")),
        }
    }
}

#[derive(Clone, Copy, Debug, PartialEq, Eq)]
pub enum Wk {
    Opt,
    Bx,
    Rcp,
    Arcp,
    Cell,
    Sp,
    WO,
    Ov,
    DR,
    MR,
}

macro_rules! ty_of {
    (Opt, $t:ty) => { Option<$t> };
    (Bx, $t:ty) => { Box<$t> };
    (Rcp, $t:ty) => { Rc<$t> };
    (Arcp, $t:ty) => { Arc<$t> };
    (Cell, $t:ty) => { RefCell<$t> };
    (Sp, $t:ty) => { SpannedValue<$t> };
    (WO, $t:ty) => { WithOriginal<$t, syn::Meta> };
    (Ov, $t:ty) => { Override<$t> };
    (DR, $t:ty) => { darling::Result<$t> };
    (MR, $t:ty) => { Result<$t, syn::Meta> };
}
macro_rules! all_w {
    ($mac:ident, $($args:tt)*) => {
        $mac!(Opt, $($args)*); $mac!(Bx, $($args)*); $mac!(Rcp, $($args)*); $mac!(Arcp, $($args)*); $mac!(Cell, $($args)*);
        $mac!(Sp, $($args)*); $mac!(WO, $($args)*); $mac!(Ov, $($args)*); $mac!(DR, $($args)*); $mac!(MR, $($args)*);
    };
}

type Outcome = Result<Carried, Vec<String>>;

pub struct Inst {
    pub chain: Vec<Wk>,
    pub target: &'static str,
    pub wrapped: fn(&syn::Meta) -> Result<Outcome, String>,
    pub plain: fn(&syn::Meta) -> Result<Outcome, String>,
    pub wrapped_none: fn() -> Option<Carried>,
    pub plain_none: fn() -> Option<Carried>,
    pub wrapped_list: fn(&[darling::ast::NestedMeta]) -> Result<Outcome, String>,
    pub plain_list: fn(&[darling::ast::NestedMeta]) -> Result<Outcome, String>,
}

fn run<X: W12>(m: &syn::Meta) -> Result<Outcome, String> {
    catch(std::panic::AssertUnwindSafe(|| match X::from_meta(m) {
        Ok(v) => Ok(v.carried()),
        Err(e) => Err(leaves(&e)),
    }))
}
fn run_list<X: W12>(items: &[darling::ast::NestedMeta]) -> Result<Outcome, String> {
    catch(std::panic::AssertUnwindSafe(|| match X::from_list(items) {
        Ok(v) => Ok(v.carried()),
        Err(e) => Err(leaves(&e)),
    }))
}
fn none<X: W12>() -> Option<Carried> {
    X::from_none().map(|v| v.carried())
}
fn push<W: W12, T: W12>(v: &mut Vec<Inst>, chain: &[Wk], target: &'static str) {
    v.push(Inst { chain: chain.to_vec(), target, wrapped: run::<W>, plain: run::<T>, wrapped_none: none::<W>, plain_none: none::<T>, wrapped_list: run_list::<W>, plain_list: run_list::<T> });
}
macro_rules! single {
    ($w:ident, $v:ident, $t:ty, $tn:expr) => {
        push::<ty_of!($w, $t), $t>(&mut $v, &[Wk::$w], $tn);
    };
}
macro_rules! double_inner {
    ($w2:ident, $w1:ident, $v:ident, $t:ty, $tn:expr) => {
        push::<ty_of!($w1, ty_of!($w2, $t)), $t>(&mut $v, &[Wk::$w1, Wk::$w2], $tn);
    };
}
macro_rules! double_outer {
    ($w1:ident, $v:ident, $t:ty, $tn:expr) => {
        all_w!(double_inner, $w1, $v, $t, $tn);
    };
}

pub fn instances() -> Vec<Inst> {
    let mut v = vec![];
    all_w!(single, v, bool, "bool");
    all_w!(single, v, u8, "u8");
    all_w!(single, v, i64, "i64");
    all_w!(single, v, String, "String");
    all_w!(single, v, char, "char");
    all_w!(single, v, syn::Path, "Path");
    all_w!(single, v, syn::Ident, "Ident");
    all_w!(single, v, syn::Expr, "Expr");
    all_w!(single, v, syn::LitStr, "LitStr");
    all_w!(single, v, PathList, "PathList");
    all_w!(single, v, DS, "DS");
    all_w!(single, v, DE, "DE");
    all_w!(single, v, HashMap<String, String>, "HashMap<String,String>");
    all_w!(single, v, Flag, "Flag");
    all_w!(double_outer, v, u8, "u8");
    all_w!(double_outer, v, bool, "bool");
    all_w!(double_outer, v, syn::Path, "Path");
    all_w!(double_outer, v, DS, "DS");
    all_w!(double_outer, v, Flag, "Flag");
    v
}

/// Wrapper-chain semantics over the inner target's outcome (the statement of C12).
fn expect(chain: &[Wk], m: &syn::Meta, inner: &Outcome) -> Outcome {
    match chain.first() {
        None => inner.clone(),
        Some(w) => {
            let rest = expect(&chain[1..], m, inner);
            match w {
                Wk::Opt | Wk::Bx | Wk::Rcp | Wk::Arcp | Wk::Cell | Wk::Sp | Wk::WO => rest,
                Wk::Ov => {
                    if matches!(m, syn::Meta::Path(_)) {
                        Ok(Carried::Inherit)
                    } else {
                        rest
                    }
                }
                Wk::DR => match rest {
                    Ok(c) => Ok(c),
                    Err(l) => Ok(Carried::InnerErr(l)),
                },
                Wk::MR => match rest {
                    Ok(c) => Ok(c),
                    Err(_) => Ok(Carried::OriginalMeta(format!("{m:?}"))),
                },
            }
        }
    }
}

fn expect_none(chain: &[Wk], inner: &Option<Carried>) -> Option<Carried> {
    match chain.first() {
        None => inner.clone(),
        Some(Wk::Opt) => Some(Carried::Val("<None>".into())),
        Some(Wk::Bx | Wk::Rcp | Wk::Arcp | Wk::Cell | Wk::DR) => expect_none(&chain[1..], inner),
        Some(_) => None,
    }
}

/// `Ignored` takes every item whatever its form and whatever tokens a list holds - alone and
/// under every wrapper (a sink for members a macro does not care about).
fn ignored_probe(t: &mut Tally) {
    use darling::util::Ignored;
    let mut items: Vec<(String, syn::Meta)> = metas();
    for body in ["1 + 2", "a b c", "k => v", "a = ", ", ,", "#[x] y", "a(b c)", "\"s\" \"t\"", "::", "-"] {
        let src = format!("#[v({body})] struct S;");
        if let Ok(di) = syn::parse_str::<syn::DeriveInput>(&src) {
            items.push((format!("v({body})"), di.attrs[0].meta.clone()));
        }
    }
    fn one<T: FromMeta>(name: &str, label: &str, m: &syn::Meta, t: &mut Tally) {
        t.evaluations += 1;
        t.hit("ignored_checked");
        match catch(std::panic::AssertUnwindSafe(|| T::from_meta(m))) {
            Ok(Ok(_)) => {}
            Ok(Err(e)) => t.violate(Violation { key: format!("C12 ignored {name} `{label}` :: {e}"), what: format!("{name} <- `{label}`: refused ({e}); `Ignored` accepts every item"), case: json!({"engine": "ignored"}), detail: json!({}) }),
            Err(p) => t.violate(Violation { key: format!("C12 ignored {name} `{label}` :: panicked"), what: format!("{name} <- `{label}`: panicked: {p}"), case: json!({"engine": "ignored"}), detail: json!({}) }),
        }
    }
    for (label, m) in &items {
        one::<Ignored>("Ignored", label, m, t);
        one::<Option<Ignored>>("Option<Ignored>", label, m, t);
        one::<Box<Ignored>>("Box<Ignored>", label, m, t);
        one::<darling::Result<Ignored>>("darling::Result<Ignored>", label, m, t);
        one::<darling::util::SpannedValue<Ignored>>("SpannedValue<Ignored>", label, m, t);
        one::<darling::util::WithOriginal<Ignored, syn::Meta>>("WithOriginal<Ignored, Meta>", label, m, t);
    }
    vrt::spans::reset();
}

pub fn metas() -> Vec<(String, syn::Meta)> {
    let texts = [
        "v", "a::b", "::v", "v()", "v(a)", "v(a = 1)", "v(zz)", "v(a = \"x\")", "v(a = 300)", "v(a = 1, b = \"s\")", "v(uno)", "v(duo = 4)", "v(duo = \"x\")", "v(k = \"s\", j = \"t\")", "v(k = \"s\", k = \"t\")", "v(a = \"x\", n(c = \"y\", d = \"z\"))", "v(a = 1, n(c = 2, zz))", "v(zz, n(), b = 5)", "v(a = 1, n(c = 2, d = 3))", "v(a, b,)", "v(a,)", "v(a = 1,)", "v(a = 1, b = \"s\",)", "v(uno,)", "v(a::b, c,)", "v(k = \"s\", j = \"t\",)",
        "v(a::b, c)", "v = true", "v = \"s\"", "v = \"5\"", "v = \"uno\"", "v = \"a::b\"", "v = \"1 +\"", "v = 5", "v = -3", "v = 300", "v = 'c'", "v = 1.5", "v = a::b", "v = a", "v = 1 + 2",
        "v = [1, 2]", "v = 0..5", "v = |x| x", "v = (a + b)", "v = (5)", "v = ((a))", "v = (a, b)", "v = { 1 }", "v = -x", "v = &x", "v = (\"s\")", "v = (true)",
        // values spelled like the wrappers' own variants are ordinary values for the inner conversion
        "v = None", "v = Some", "v = none", "v = Some(5)", "v = Ok", "v = Ok(5)", "v = Err", "v = Inherit", "v = Explicit", "v = Explicit(5)", "v = Default", "v = default", "v = Box", "v = null", "v = ()",
        // a list whose single member is a literal is a list, not a value
        "v(\"s\")", "v(5)", "v(true)", "v('c')", "v(\"a::b\")", "v(\"uno\")", "v(1.5)", "v(300)", "v(\"s\",)", "v(5, 6)", "v(\"s\", a = 1)", "v(None)", "v(Some)",
    ];
    let mut out: Vec<(String, syn::Meta)> = vec![];
    for t in texts {
        let di: syn::DeriveInput = syn::parse_str(&format!("#[{t}] struct S;")).unwrap();
        out.push((t.to_string(), di.attrs[0].meta.clone()));
        // the same item as a non-final member of a list (syn parses values differently there)
        let di: syn::DeriveInput = syn::parse_str(&format!("#[w({t}, z)] struct S;")).unwrap();
        let list = di.attrs[0].meta.require_list().unwrap();
        if let Ok(items) = darling::ast::NestedMeta::parse_meta_list(list.tokens.clone()) {
            if let darling::ast::NestedMeta::Meta(m) = &items[0] {
                out.push((format!("{t}  (inside a list)"), m.clone()));
            }
        }
    }
    // invisible groups around every value of the menu (one and two levels)
    let values: Vec<String> = texts.iter().filter_map(|t| t.strip_prefix("v = ").map(|s| s.to_string())).collect();
    for inner in values.iter().map(|s| s.as_str()) {
        let Ok(e) = syn::parse_str::<syn::Expr>(inner) else { continue };
        let g1 = syn::Expr::Group(syn::ExprGroup { attrs: vec![], group_token: Default::default(), expr: Box::new(e) });
        let g2 = syn::Expr::Group(syn::ExprGroup { attrs: vec![], group_token: Default::default(), expr: Box::new(g1) });
        let m = syn::Meta::NameValue(syn::MetaNameValue { path: syn::parse_str("v").unwrap(), eq_token: Default::default(), value: g2 });
        out.push((format!("v = ⟦⟦{inner}⟧⟧"), m));
    }
    for inner in values.iter().map(|s| s.as_str()) {
        let e: syn::Expr = syn::parse_str(inner).unwrap();
        let g = syn::Expr::Group(syn::ExprGroup { attrs: vec![], group_token: Default::default(), expr: Box::new(e) });
        let m = syn::Meta::NameValue(syn::MetaNameValue { path: syn::parse_str("v").unwrap(), eq_token: Default::default(), value: g });
        out.push((format!("v = ⟦{inner}⟧"), m));
    }
    out
}

pub fn check(inst: &Inst, label: &str, m: &syn::Meta, t: &mut Tally) {
    t.evaluations += 1;
    let name = format!("{:?}<{}>", inst.chain, inst.target);
    let inner = (inst.plain)(m);
    let got = (inst.wrapped)(m);
    let bad = |msg: String, t: &mut Tally| {
        t.violate(Violation {
            key: format!("C12 wrapper={name} item=`{label}` :: {msg}"),
            what: format!("{name} <- `{label}`: {msg}"),
            case: json!({"chain": format!("{:?}", inst.chain), "target": inst.target, "item": label}),
            detail: json!({}),
        })
    };
    let (inner, got) = match (inner, got) {
        (Ok(i), Ok(g)) => (i, g),
        (Err(p), _) | (_, Err(p)) => {
            bad(format!("panicked: {p}"), t);
            return;
        }
    };
    let want = expect(&inst.chain, m, &inner);
    match &want {
        Ok(Carried::Val(_)) => t.hit("expect_value"),
        Ok(Carried::Inherit) => t.hit("expect_inherit"),
        Ok(Carried::InnerErr(_)) => t.hit("expect_inner_err"),
        Ok(Carried::OriginalMeta(_)) => t.hit("expect_original_meta"),
        Err(_) => {
            t.hit("expect_err");
            t.nontrivial += 1;
        }
    }
    if got != want {
        bad(format!("got {got:?}, the wrapped target alone gives {inner:?} so the wrapper must give {want:?}"), t);
    }
}

/// SpannedValue records the value's own source range; WithOriginal an identical copy.
fn span_and_original(t: &mut Tally) {
    use syn::spanned::Spanned;
    for (label, m) in metas() {
        if label.contains('⟦') {
            continue;
        }
        macro_rules! sp {
            ($ty:ty) => {
                if let Ok(v) = <SpannedValue<$ty>>::from_meta(&m) {
                    t.evaluations += 1;
                    t.hit("spanned_value_checked");
                    let want = match &m {
                        syn::Meta::Path(p) => vrt::spans::cols(p.span()),
                        syn::Meta::List(l) => {
                            if l.tokens.is_empty() {
                                None
                            } else {
                                vrt::spans::cols(l.tokens.span())
                            }
                        }
                        syn::Meta::NameValue(nv) => vrt::spans::cols(nv.value.span()),
                    };
                    let got = vrt::spans::cols(v.span());
                    if want.is_some() && got != want {
                        t.violate(Violation { key: format!("C12 SpannedValue<{}> item=`{label}` span {got:?} != {want:?}", stringify!($ty)), what: format!("SpannedValue<{}> <- `{label}`: span() is {got:?}, the value's own range is {want:?}", stringify!($ty)), case: json!({"item": label}), detail: json!({}) });
                    }
                }
                if let Ok(v) = <WithOriginal<$ty, syn::Meta>>::from_meta(&m) {
                    t.evaluations += 1;
                    t.hit("with_original_checked");
                    // structural identity (the Debug rendering shows invisible groups and spans, token text does not)
                    if format!("{:?}", v.original) != format!("{m:?}") {
                        t.violate(Violation { key: format!("C12 WithOriginal<{}> item=`{label}` original differs", stringify!($ty)), what: format!("WithOriginal<{}> <- `{label}`: original is `{}`", stringify!($ty), v.original.to_token_stream()), case: json!({"item": label}), detail: json!({}) });
                    }
                }
            };
        }
        sp!(bool);
        sp!(u8);
        sp!(String);
        sp!(syn::Path);
        sp!(syn::Expr);
        sp!(PathList);
        sp!(DS);
        sp!(DE);
        sp!(Flag);
        sp!(HashMap<String, String>);
    }
}

pub fn main(args: &Args) {
    if args.replay.is_some() {
        println!("C12 replay: the case names the wrapper chain, target and item; re-run `./check C12` (the sweep takes a second)");
        std::process::exit(0);
    }
    let mut rep = Report::new("C12", args.tier, "exploration");
    let insts = instances();
    let mut t = Tally::default();
    ignored_probe(&mut t);
    let ms = metas();
    for inst in &insts {
        for (label, m) in &ms {
            check(inst, label, m, &mut t);
        }
        // the list hook called directly (what a `flatten` member receives), for the wrappers that
        // forward it: smart pointers, darling's Result, Override
        if inst.chain.iter().all(|w| matches!(w, Wk::Bx | Wk::Rcp | Wk::Arcp | Wk::Cell | Wk::DR | Wk::Ov)) {
            for (label, m) in &ms {
                let syn::Meta::List(l) = m else { continue };
                let Ok(items) = darling::ast::NestedMeta::parse_meta_list(l.tokens.clone()) else { continue };
                t.evaluations += 1;
                t.hit("from_list_checked");
                let inner = (inst.plain_list)(&items);
                let got = (inst.wrapped_list)(&items);
                if let (Ok(inner), Ok(got)) = (inner, got) {
                    // a list is never the bare word: Override is transparent here
                    let want = expect(&inst.chain, m, &inner);
                    if got != want {
                        let name = format!("{:?}<{}>", inst.chain, inst.target);
                        t.violate(Violation { key: format!("C12 wrapper={name} from_list item=`{label}` :: {got:?} expected {want:?}"), what: format!("{name}::from_list <- `{label}`: got {got:?}, expected {want:?}"), case: json!({}), detail: json!({}) });
                    }
                }
            }
        }
        // absent item
        t.evaluations += 1;
        let want = expect_none(&inst.chain, &(inst.plain_none)());
        let got = (inst.wrapped_none)();
        if got != want {
            let name = format!("{:?}<{}>", inst.chain, inst.target);
            t.violate(Violation { key: format!("C12 wrapper={name} from_none :: {got:?} expected {want:?}"), what: format!("{name}::from_none() = {got:?}, expected {want:?}"), case: json!({}), detail: json!({}) });
        }
        t.hit("from_none_checked");
    }
    span_and_original(&mut t);
    rep.absorb(t);
    rep.set("instantiations", json!(insts.len()));
    rep.set("meta_items", json!(ms.len()));
    rep.rule = format!(
        "{} monomorphic instantiations: 10 wrappers (Option, Box, Rc, Arc, RefCell, SpannedValue, WithOriginal<_, Meta>, Override, darling Result, Result<_, Meta>) x 14 targets (bool, u8, i64, String, char, Path, Ident, Expr, LitStr, PathList, a derived struct, a derived enum, a string map, Flag) and all 100 two-level compositions x 5 targets; x {} meta items (word, lists with empty/valid/invalid bodies, name-value with every literal kind and non-literal expressions, each alone and as a non-final list member, invisible groups). Oracle: the wrapper chain applied to T::from_meta's own outcome on the same item (same Ok/Err, same value, same error leaves incl. spans; Result wrappers never fail outwardly; Override: word -> Inherit); from_none per wrapper; SpannedValue::span() = the value's own range; WithOriginal.original token-equal. distinct_nontrivial = (instantiation, item) pairs the inner target rejects.",
        insts.len(),
        ms.len()
    );
    rep.assumptions = vec!["the inner target's own conversion is the reference (differential)".into()];
    rep.tally.samples.push(json!({"wrapper": "[Ov, Bx]<u8>", "item": "v = 5", "expect": "Override::Explicit(Box(5))"}));
    rep.require_counter("expect_value");
    rep.require_counter("expect_inherit");
    rep.require_counter("expect_inner_err");
    rep.require_counter("expect_original_meta");
    rep.require_counter("expect_err");
    rep.require_counter("spanned_value_checked");
    rep.finish()
}
