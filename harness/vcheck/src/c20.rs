//! C20 — every emitted implementation compiles and is self-contained. The verdict is rustc's:
//! all corpora of the other checks plus a name-clash corpus, generic receivers whose bounds must
//! be exactly the needed ones, and three negative crates (capturing closures must be rejected).
use crate::corpus::*;
use crate::Args;
use serde_json::json;
use vrt::{Report, Tier, Violation};

const GENERIC_HEAD: &str = r#"
#![allow(dead_code, non_camel_case_types)]
// A type that implements none of darling's traits: a bound on a parameter instantiated with it
// makes the `need::<..>()` lines below fail to compile.
#[derive(Default, Debug)]
pub struct Opaque;
#[derive(Debug, Default, Clone, darling::FromMeta)]
pub struct Inner { #[darling(default)] pub x: u32 }
"#;

/// One module per trait (written out, not via macro_rules: receivers declared inside a
/// macro_rules body hit a hygiene limitation of the generated code that is outside C20's scope
/// and is recorded in DESIGN.md as an observation).
fn generic_module(m: &str, tr: &str, attr: &str) -> String {
    format!(
        r#"
pub mod {m} {{
    use super::{{Opaque, Inner}};
    #[derive(Debug, darling::{tr})]
    {attr}
    pub struct G0<T, U> {{ pub a: T, #[darling(skip)] pub b: Option<U>, #[darling(multiple)] pub c: Vec<T> }}
    #[derive(Debug, darling::{tr})]
    {attr}
    pub struct G1<'a, R, const N: usize> where R: Clone {{ pub a: u8, #[darling(flatten)] pub rest: R, #[darling(skip)] pub p: std::marker::PhantomData<&'a [u8; N]> }}
    #[derive(Debug, darling::{tr})]
    {attr}
    pub struct G2<__errors, item> {{ #[darling(default)] pub errors: Option<__errors>, #[darling(skip)] pub __item: Option<item> }}
    #[derive(Debug, darling::{tr})]
    {attr}
    pub struct G3<T: Default> {{ #[darling(default)] pub a: std::collections::HashMap<String, T>, #[darling(default)] pub b: Box<Option<T>> }}
    // the parameter only inside `::`-rooted paths, a qualified path and a parenthesised type
    #[derive(Debug, darling::{tr})]
    {attr}
    pub struct G4<T, U, V> {{ pub a: ::std::option::Option<T>, #[darling(multiple)] pub b: ::std::vec::Vec<U>, pub c: (::std::boxed::Box<V>) }}
    // defaults on type and const parameters belong to the declaration, not to the impl header
    #[derive(Debug, darling::{tr})]
    {attr}
    pub struct G5<T = u32, const N: usize = 4, const B: bool = true> {{ pub a: T, #[darling(skip)] pub p: std::marker::PhantomData<[u8; N]> }}
    #[derive(Debug, darling::{tr})]
    {attr}
    pub struct G6<'a, 'b: 'a, T: 'a + ?Sized, const N: usize = 2> where T: 'b {{ #[darling(skip)] pub p: std::marker::PhantomData<(&'a u8, &'b [u8; N])>, pub q: Box<T> }}
    fn need<X: darling::{tr}>() {{}}
    pub fn instantiate() {{
        need::<G5>();
        need::<G5<u8, 1, false>>();
        need::<G6<'static, 'static, u32>>();
        need::<G0<u32, Opaque>>();
        need::<G1<'static, Inner, 3>>();
        need::<G2<u8, Opaque>>();
        need::<G3<u32>>();
        need::<G4<u32, u8, String>>();
    }}
}}
"#
    )
}

const GENERIC_TAIL: &str = r#"
// generic enums
#[derive(Debug, darling::FromMeta)]
pub enum GE<T, U> { Unit, New(T), #[darling(skip)] Skipped(Option<U>), Named { x: T } }
fn need_meta<X: darling::FromMeta>() {}

// a skipped member of a type without `Default` takes its value from the container default
#[derive(Debug)]
pub struct NoDefault(u8);
#[derive(Debug, darling::FromMeta)]
#[darling(default)]
pub struct SkipFromContainer { #[darling(skip)] pub a: NoDefault, pub b: u32 }
impl Default for SkipFromContainer { fn default() -> Self { SkipFromContainer { a: NoDefault(1), b: 2 } } }
#[derive(Debug, darling::FromField)]
#[darling(attributes(a), default = mk_sf)]
pub struct SkipFromFn { #[darling(skip)] pub a: NoDefault, #[darling(skip)] pub data: NoDefault, pub b: u32 }
fn mk_sf() -> SkipFromFn { SkipFromFn { a: NoDefault(1), data: NoDefault(2), b: 3 } }

// accepted option combinations, in every textual order
#[derive(Debug, Default, darling::FromMeta)]
pub struct Flat { #[darling(default)] pub p: u32 }
#[derive(Debug, darling::FromMeta)]
pub struct Orders {
    #[darling(multiple = false, flatten)] pub a: Flat,
    #[darling(skip = false, default, rename = "bb", map = ident_u32)] pub b: u32,
    #[darling(default, multiple, with = |m| <u32 as darling::FromMeta>::from_meta(m), and_then = ok_u32)] pub c: Vec<u32>,
    #[darling(skip, default = seven)] pub d: u32,
}
#[derive(Debug, darling::FromMeta)]
pub struct Orders2 { #[darling(flatten, multiple = false, skip = false, default)] pub a: Flat, #[darling(rename = "x", default = seven, skip = false)] pub b: u32 }
fn ident_u32(v: u32) -> u32 { v }
fn ok_u32(v: u32) -> darling::Result<u32> { Ok(v) }
fn seven() -> u32 { 7 }

// a default path may be generic in its return type: the member's type pins it
#[derive(Debug, darling::FromMeta)]
#[darling(default = Default::default)]
pub struct GenericDefaults {
    #[darling(default = Default::default)] pub a: u32,
    #[darling(default = ::core::default::Default::default)] pub b: Option<String>,
    #[darling(default = fallback)] pub c: Vec<u8>,
    pub d: u32,
    #[darling(skip, default = fallback)] pub e: u64,
}
impl Default for GenericDefaults { fn default() -> Self { loop {} } }
fn fallback<T: Default>() -> T { T::default() }
#[derive(Debug, darling::FromDeriveInput)]
#[darling(attributes(a), default = fallback)]
pub struct GenericDefaultsDi { #[darling(default = fallback)] pub a: u32, pub b: u32 }
impl Default for GenericDefaultsDi { fn default() -> Self { loop {} } }

// names are data, never code: a rename may hold anything a string can (braces, quotes,
// backslashes, percent signs, nothing at all), on every kind of member and on variants
#[derive(Debug, darling::FromMeta)]
pub struct OddNames {
    #[darling(multiple, rename = "item{s}")] pub a: Vec<u32>,
    #[darling(multiple, rename = "{}")] pub b: Vec<u32>,
    #[darling(default, rename = "}{")] pub c: u32,
    #[darling(default, rename = "q\"uote\\back")] pub d: u32,
    #[darling(default, rename = "{0} {name} %s")] pub e: Option<u32>,
    #[darling(default, rename = "")] pub f: u32,
    #[darling(default, rename = "r#type")] pub g: u32,
    #[darling(multiple, rename = "a::b")] pub h: Vec<u32>,
}
#[derive(Debug, darling::FromMeta)]
pub enum OddVariants { #[darling(rename = "{}")] A, #[darling(rename = "item{s}")] B(u32), #[darling(rename = "q\"uote")] C { #[darling(rename = "{x}", multiple)] x: Vec<u32> }, #[darling(rename = "")] D }
#[derive(Debug, darling::FromDeriveInput)]
#[darling(attributes(a))]
pub struct OddNamesDi { #[darling(multiple, rename = "it{em")] pub a: Vec<u32>, #[darling(default, rename = "}")] pub b: u32 }

// receivers assembled by `macro_rules!` helpers: the derive line and the options come from the
// macro body, the members from the invocation (and the other way round), so generated locals and
// member names carry different hygiene marks
mod mac {
    macro_rules! recv {
        ($tr:ident, [$($opt:tt)*], $name:ident { $( $(#[$m:meta])* $f:ident : $t:ty ),* $(,)? }) => {
            #[derive(darling::$tr)]
            #[darling($($opt)*)]
            pub struct $name { $( $(#[$m])* pub $f: $t ),* }
        };
    }
    recv!(FromMeta, [default], M1 { a: u32, #[darling(multiple)] b: Vec<u32>, #[darling(flatten)] c: super::Flat, #[darling(skip)] d: u8, #[darling(default)] e: Option<u32>, #[darling(map = super::ident_u32)] f: u32, #[darling(default = super::seven)] g: u32, #[darling(with = |m| <u32 as darling::FromMeta>::from_meta(m))] h: u32 });
    impl Default for M1 { fn default() -> Self { loop {} } }
    recv!(FromMeta, [], M1b { a: u32, #[darling(multiple, rename = "bb")] b: Vec<u32>, #[darling(and_then = super::ok_u32)] c: u32 });
    recv!(FromDeriveInput, [attributes(a), forward_attrs, supports(any)], M2 { ident: syn::Ident, attrs: Vec<syn::Attribute>, generics: syn::Generics, vis: syn::Visibility, data: darling::ast::Data<darling::util::Ignored, darling::util::Ignored>, #[darling(default)] k: u32 });
    recv!(FromDeriveInput, [attributes(a), forward_attrs(doc), supports(struct_named)], M2b { attrs: Vec<syn::Attribute>, #[darling(with = super::mac::body)] data: u8, #[darling(multiple)] k: Vec<u32> });
    pub fn body(_: &syn::Data) -> darling::Result<u8> { Ok(0) }
    recv!(FromField, [attributes(a), forward_attrs(doc)], M3 { ident: Option<syn::Ident>, attrs: Vec<syn::Attribute>, ty: syn::Type, vis: syn::Visibility, #[darling(multiple)] k: Vec<u32> });
    recv!(FromVariant, [attributes(a), forward_attrs, supports(unit, newtype)], M4 { ident: syn::Ident, attrs: Vec<syn::Attribute>, fields: darling::ast::Fields<darling::util::Ignored>, discriminant: Option<syn::Expr> });
    recv!(FromTypeParam, [attributes(a), forward_attrs], M5 { ident: syn::Ident, attrs: Vec<syn::Attribute>, bounds: Vec<syn::TypeParamBound>, default: Option<syn::Type> });
    recv!(FromAttributes, [attributes(a)], M6 { #[darling(default)] k: u32, #[darling(multiple)] m: Vec<u32> });
    recv!(FromField, [attributes(a), forward_attrs, from_ident], M7 { ident: Option<syn::Ident>, #[darling(with = super::mac::count)] attrs: usize, k: u32 });
    pub fn count(v: Vec<syn::Attribute>) -> darling::Result<usize> { Ok(v.len()) }
    impl From<Option<syn::Ident>> for M7 { fn from(i: Option<syn::Ident>) -> Self { M7 { ident: i, attrs: 0, k: 0 } } }
    // the other way round
    macro_rules! on_fixed { ($(#[$m:meta])* $name:ident) => { $(#[$m])* pub struct $name { pub ident: syn::Ident, pub attrs: Vec<syn::Attribute>, #[darling(default)] pub k: u32, #[darling(multiple)] pub m: Vec<u32> } } }
    on_fixed!(#[derive(darling::FromDeriveInput)] #[darling(attributes(a), forward_attrs)] N1);
    on_fixed!(#[derive(darling::FromVariant)] #[darling(attributes(a), forward_attrs(doc))] N2);
    // variants from the invocation
    macro_rules! en { ($name:ident { $($v:tt)* }) => { #[derive(darling::FromMeta)] pub enum $name { $($v)* } } }
    en!(ME { A, B(u32), C { x: u32, #[darling(default)] y: Option<u32>, #[darling(multiple)] z: Vec<u32> }, #[darling(skip)] D });
    // the type name alone from the invocation, generic parameters from the body
    macro_rules! named { ($name:ident) => { #[derive(darling::FromMeta)] pub struct $name<T> { pub a: T, #[darling(default)] pub b: Option<T> } } }
    named!(MG);
    pub fn instantiate() {
        fn m<X: darling::FromMeta>() {}
        m::<M1>(); m::<M1b>(); m::<ME>(); m::<MG<u8>>();
    }
}

// non-capturing closures in every position that accepts one
#[derive(Debug, darling::FromMeta)]
#[darling(from_word = || Ok(Closures { a: 1, b: 2 }), from_none = || None)]
pub struct Closures { #[darling(with = |m| <u32 as darling::FromMeta>::from_meta(m).map(|v| v + 1))] pub a: u32, #[darling(default)] pub b: u32 }
#[derive(Debug, darling::FromMeta)]
#[darling(from_word = || Ok(EClosures::A))]
pub enum EClosures { A, B(u32) }

fn main() {
    g_meta::instantiate(); g_di::instantiate(); g_field::instantiate(); g_variant::instantiate(); g_tp::instantiate(); g_attrs::instantiate();
    need_meta::<GE<u32, Opaque>>();
    need_meta::<Closures>();
    need_meta::<SkipFromContainer>();
    need_meta::<Orders>();
    need_meta::<Orders2>();
    fn need_field<X: darling::FromField>() {}
    need_field::<SkipFromFn>();
    need_meta::<EClosures>();
    mac::instantiate();
    need_meta::<GenericDefaults>();
    need_meta::<OddNames>();
    need_meta::<OddVariants>();
    fn need_di<X: darling::FromDeriveInput>() {}
    need_di::<OddNamesDi>();
}
"#;


/// Receivers spanning the option space, written with fully qualified types only, to be placed in
/// modules that give common names another meaning.
const HYGIENE_RECEIVERS: &str = r#"
    #[derive(darling::FromMeta)]
    pub struct Inner { #[darling(default)] pub p: u32 }
    #[derive(darling::FromMeta)]
    #[darling(rename_all = "camelCase", default)]
    pub struct R { pub a: u32, #[darling(default)] pub b: ::core::option::Option<u32>, #[darling(multiple)] pub c: ::std::vec::Vec<u32>, #[darling(skip)] pub d: u8, #[darling(flatten)] pub e: Inner, #[darling(map = id)] pub f: u32, #[darling(and_then = ok)] pub g: u32, #[darling(with = wf)] pub h: u32, #[darling(default = seven)] pub i: u32, #[darling(multiple, rename = "jj")] pub j: ::std::vec::Vec<Inner> }
    impl ::core::default::Default for R { fn default() -> Self { loop {} } }
    impl ::core::default::Default for Inner { fn default() -> Self { loop {} } }
    fn id(v: u32) -> u32 { v }
    fn seven() -> u32 { 7 }
    fn ok(v: u32) -> ::darling::Result<u32> { ::core::result::Result::Ok(v) }
    fn wf(_: &::syn::Meta) -> ::darling::Result<u32> { ::core::result::Result::Ok(1) }
    #[derive(darling::FromMeta)]
    #[darling(from_word = fw, from_none = fnone)]
    pub enum E { A, B(u32), C { x: u32, #[darling(default)] y: ::core::option::Option<u32> }, #[darling(skip)] D }
    fn fw() -> ::darling::Result<E> { ::core::result::Result::Ok(E::A) }
    fn fnone() -> ::core::option::Option<E> { ::core::option::Option::None }
    #[derive(darling::FromMeta)]
    pub enum E2 { #[darling(word)] A, B(u32), C { #[darling(flatten)] f: Inner, #[darling(multiple)] m: ::std::vec::Vec<u32> } }
    #[derive(darling::FromMeta)]
    pub struct NT(u32);
    #[derive(darling::FromMeta)]
    pub struct Unit;
    #[derive(darling::FromDeriveInput)]
    #[darling(attributes(a), forward_attrs(doc), supports(struct_named, enum_any))]
    pub struct DI { pub ident: ::syn::Ident, pub vis: ::syn::Visibility, pub attrs: ::std::vec::Vec<::syn::Attribute>, pub generics: ::syn::Generics, pub data: ::darling::ast::Data<V, F>, #[darling(default)] pub k: u32 }
    #[derive(darling::FromDeriveInput)]
    #[darling(attributes(a), from_ident, supports(any))]
    pub struct DI2 { pub ident: ::syn::Ident, pub k: u32 }
    impl ::core::convert::From<::syn::Ident> for DI2 { fn from(i: ::syn::Ident) -> Self { DI2 { ident: i, k: 0 } } }
    #[derive(darling::FromDeriveInput)]
    #[darling(attributes(a), forward_attrs, supports(struct_unit, struct_tuple, enum_unit, enum_newtype))]
    pub struct DI3 { #[darling(with = keep)] pub attrs: usize, #[darling(with = body)] pub data: u8, #[darling(multiple)] pub m: ::std::vec::Vec<u32> }
    fn keep(v: ::std::vec::Vec<::syn::Attribute>) -> ::darling::Result<usize> { ::core::result::Result::Ok(v.len()) }
    fn body(_: &::syn::Data) -> ::darling::Result<u8> { ::core::result::Result::Ok(0) }
    #[derive(darling::FromField)]
    #[darling(attributes(a), forward_attrs)]
    pub struct F { pub ident: ::core::option::Option<::syn::Ident>, pub ty: ::syn::Type, pub vis: ::syn::Visibility, pub attrs: ::std::vec::Vec<::syn::Attribute>, #[darling(default)] pub k: u32 }
    #[derive(darling::FromVariant)]
    #[darling(attributes(a), supports(unit, newtype))]
    pub struct V { pub ident: ::syn::Ident, pub fields: ::darling::ast::Fields<F>, pub discriminant: ::core::option::Option<::syn::Expr> }
    #[derive(darling::FromTypeParam)]
    #[darling(attributes(a))]
    pub struct TP { pub ident: ::syn::Ident, pub bounds: ::std::vec::Vec<::syn::TypeParamBound>, pub default: ::core::option::Option<::syn::Type> }
    #[derive(darling::FromAttributes)]
    #[darling(attributes(a))]
    pub struct FA { #[darling(default)] pub k: u32, #[darling(multiple)] pub m: ::std::vec::Vec<u32> }
"#;

/// (module name, what the receiver's module defines under a common name)
const SHADOWS: [(&str, &str); 28] = [
    ("option", "pub struct Option;"),
    ("some", "pub struct Some;"),
    ("none", "pub struct None;"),
    ("some_none_variants", "pub enum Quantifier { All, Some, None } pub use self::Quantifier::*;"),
    ("result", "pub struct Result;"),
    ("result_alias", "pub type Result<T> = ::core::result::Result<T, ()>;"),
    ("ok", "pub struct Ok;"),
    ("err", "pub struct Err;"),
    ("vec", "pub struct Vec;"),
    ("vec_generic", "pub struct Vec<T, U>(T, U);"),
    ("string", "pub struct String;"),
    ("box_", "pub struct Box;"),
    ("default_struct", "pub struct Default;"),
    ("default_trait", "pub trait Default { fn default() -> u8; }"),
    ("error", "pub struct Error; pub struct Meta; pub struct NestedMeta; pub struct FromMeta; pub struct Ident;"),
    ("iterator", "pub trait Iterator {} pub trait IntoIterator {} pub trait Extend {}"),
    ("conversions", "pub trait Into {} pub trait From {} pub trait AsRef {} pub trait ToString {} pub trait Clone {} pub trait ToOwned {}"),
    ("std_mods", "pub mod std {} pub mod core {} pub mod alloc {}"),
    ("darling_mods", "pub mod darling_core {} pub mod export {} pub mod ast {} pub mod util {}"),
    ("fns", "pub fn identity() {} pub fn drop() {} pub fn default() {}"),
    ("macro_vec", "macro_rules! vec { ($($t:tt)*) => { compile_error!(\"the receiver crate's own vec!\") } }"),
    ("macro_format", "macro_rules! format { ($($t:tt)*) => { compile_error!(\"the receiver crate's own format!\") } }"),
    ("macro_panic", "macro_rules! panic { ($($t:tt)*) => { compile_error!(\"the receiver crate's own panic!\") } } macro_rules! unreachable { ($($t:tt)*) => { compile_error!(\"own unreachable!\") } }"),
    ("macro_matches", "macro_rules! matches { ($($t:tt)*) => { compile_error!(\"own matches!\") } } macro_rules! stringify { ($($t:tt)*) => { compile_error!(\"own stringify!\") } }"),
    ("macro_assert", "macro_rules! assert { ($($t:tt)*) => { compile_error!(\"own assert!\") } } macro_rules! debug_assert { ($($t:tt)*) => { compile_error!(\"own\") } } macro_rules! write { ($($t:tt)*) => { compile_error!(\"own\") } }"),
    ("primitives", "pub struct bool_; pub struct usize_; pub type Self_ = u8;"),
    ("syn_name", "pub mod syn_ {} pub struct Attribute; pub struct Data; pub struct Fields; pub struct Generics; pub struct Expr; pub struct Type;"),
    ("everything", "pub struct Option; pub struct Some; pub struct None; pub struct Result; pub struct Ok; pub struct Err; pub struct Vec; pub struct String; pub struct Box; pub struct Default; pub struct Error;"),
];

/// Receivers that have inherent items named like the methods generated code calls, and generic
/// receivers whose parameters are named like types generated code mentions.
const HYGIENE_EXTRA: &str = r#"
mod h_inherent {
    macro_rules! own_items { ($($t:ident),*) => { $(impl $t {
        pub fn from_meta() {} pub fn from_list() {} pub fn from_word() {} pub fn from_none() {} pub fn from_string() {} pub fn from_value() {}
        pub fn from_expr() {} pub fn from_nested_meta() {} pub fn from_bool() {} pub fn from_char() {} pub fn default() {} pub fn from() {} pub fn into(&self) {}
        pub fn clone(&self) {} pub fn from_derive_input() {} pub fn from_field() {} pub fn from_variant() {} pub fn from_type_param() {} pub fn from_attributes() {}
        pub fn from_generics() {} pub fn from_generic_param() {} pub fn uses_type_params() {} pub fn uses_lifetimes() {} pub fn to_string(&self) {} pub fn len(&self) {}
        pub fn push(&self) {} pub fn handle(&self) {} pub fn finish(&self) {} pub fn map(&self) {} pub fn and_then(&self) {} pub fn unwrap_or_default() {} pub fn identity() {}
        pub const Ok: u8 = 0; pub const None: u8 = 0;
    })* } }
    #[derive(darling::FromMeta)]
    pub struct Inner { #[darling(default)] pub p: u32 }
    #[derive(darling::FromMeta)]
    #[darling(default, from_word = rw)]
    pub struct R { pub a: u32, #[darling(multiple)] pub c: ::std::vec::Vec<u32>, #[darling(flatten)] pub e: Inner, #[darling(skip)] pub s: u8 }
    fn rw() -> ::darling::Result<R> { loop {} }
    impl ::core::default::Default for R { fn default() -> Self { loop {} } }
    impl ::core::default::Default for Inner { fn default() -> Self { loop {} } }
    #[derive(darling::FromMeta)]
    pub enum E { A, B(u32), C { x: u32 } }
    #[derive(darling::FromMeta)]
    pub struct NT(u32);
    #[derive(darling::FromDeriveInput)]
    #[darling(attributes(a), forward_attrs, supports(any), from_ident)]
    pub struct DI { pub ident: ::syn::Ident, pub attrs: ::std::vec::Vec<::syn::Attribute>, pub data: ::darling::ast::Data<V, F>, pub k: u32 }
    impl ::core::convert::From<::syn::Ident> for DI { fn from(i: ::syn::Ident) -> Self { loop {} } }
    #[derive(darling::FromField)]
    #[darling(attributes(a))]
    pub struct F { pub ident: ::core::option::Option<::syn::Ident>, #[darling(default)] pub k: u32 }
    #[derive(darling::FromVariant)]
    #[darling(attributes(a), supports(unit, newtype))]
    pub struct V { pub ident: ::syn::Ident, pub fields: ::darling::ast::Fields<F> }
    #[derive(darling::FromTypeParam)]
    #[darling(attributes(a))]
    pub struct TP { pub ident: ::syn::Ident, #[darling(default)] pub k: u32 }
    #[derive(darling::FromAttributes)]
    #[darling(attributes(a))]
    pub struct FA { #[darling(default)] pub k: u32 }
    own_items!(Inner, R, E, NT, DI, F, V, TP, FA);
}
mod h_user_types {
    // the receiver crate's own types named like darling's and syn's public items, used as members
    macro_rules! ut { ($($n:ident),*) => { $( #[derive(darling::FromMeta)] pub struct $n { #[darling(default)] pub p: u32 } impl ::core::default::Default for $n { fn default() -> Self { $n { p: 0 } } } )* } }
    ut!(Shape, ShapeSet, Error, Accumulator, Flag, Override, SpannedValue, WithOriginal, Data, Fields, Style, NestedMeta, Meta, Ident, Attribute, Generics, PathList, IdentString, Ignored, Callable, Result, Span, DeriveInput, Field, Variant, TypeParam, FromMeta, FromDeriveInput);
    #[derive(darling::FromMeta)]
    pub struct R { pub a: Shape, #[darling(default)] pub b: ShapeSet, #[darling(multiple)] pub c: ::std::vec::Vec<Error>, #[darling(flatten)] pub d: Accumulator, #[darling(default)] pub e: ::core::option::Option<Flag>, pub f: Meta, pub g: NestedMeta, pub h: Result, pub i: FromMeta }
    #[derive(darling::FromMeta)]
    pub enum E { A(Shape), B { x: Error, #[darling(default)] y: Data }, C(Result), D }
    #[derive(darling::FromDeriveInput)]
    #[darling(attributes(a), forward_attrs, supports(struct_named, enum_unit))]
    pub struct DI { pub ident: ::syn::Ident, pub attrs: ::std::vec::Vec<::syn::Attribute>, pub data: ::darling::ast::Data<V, F>, #[darling(default)] pub a: Shape, #[darling(default)] pub b: Data, #[darling(default)] pub c: Generics, #[darling(default)] pub d: DeriveInput, #[darling(default)] pub e: Attribute }
    #[derive(darling::FromField)]
    #[darling(attributes(a), forward_attrs)]
    pub struct F { pub ident: ::core::option::Option<::syn::Ident>, pub attrs: ::std::vec::Vec<::syn::Attribute>, #[darling(default)] pub a: Field, #[darling(default)] pub b: Ident, #[darling(default)] pub c: Error }
    #[derive(darling::FromVariant)]
    #[darling(attributes(a), forward_attrs, supports(unit, newtype))]
    pub struct V { pub ident: ::syn::Ident, pub fields: ::darling::ast::Fields<F>, #[darling(default)] pub a: Shape, #[darling(default)] pub b: ShapeSet, #[darling(default)] pub c: Variant, #[darling(default)] pub d: Fields, #[darling(default)] pub e: Style }
    #[derive(darling::FromTypeParam)]
    #[darling(attributes(a))]
    pub struct TP { pub ident: ::syn::Ident, #[darling(default)] pub a: TypeParam, #[darling(default)] pub b: Generics }
    #[derive(darling::FromAttributes)]
    #[darling(attributes(a))]
    pub struct FA { #[darling(default)] pub a: Attribute, #[darling(multiple)] pub m: ::std::vec::Vec<Meta> }
}
mod h_generic_names {
    // parameters named like what generated code mentions
    #[derive(darling::FromMeta)]
    pub struct G1<Error, Meta, Item, Result, T> { pub a: Error, pub b: Meta, #[darling(multiple)] pub c: ::std::vec::Vec<Item>, #[darling(default)] pub d: ::core::option::Option<Result>, #[darling(skip)] pub e: ::core::marker::PhantomData<T> }
    #[derive(darling::FromMeta)]
    pub enum G2<Option, Vec, Self_> { A(Option), B { x: Vec }, #[darling(skip)] C(Self_) }
    #[derive(darling::FromDeriveInput)]
    #[darling(attributes(a))]
    pub struct G3<'a, FromMeta, const N: usize, Default: ::core::default::Default = u8> { pub ident: ::syn::Ident, pub x: FromMeta, #[darling(skip)] pub y: ::core::marker::PhantomData<&'a [Default; N]> }
    #[derive(darling::FromField)]
    #[darling(attributes(a))]
    pub struct G4<__T, __E> { pub a: __T, #[darling(default)] pub b: ::core::option::Option<__E> }
    pub fn instantiate() {
        fn m<X: ::darling::FromMeta>() {}
        m::<G1<u8, u16, u32, u64, ()>>();
        m::<G2<u8, u16, ::core::cell::Cell<u8>>>();
        fn d<X: ::darling::FromDeriveInput>() {}
        d::<G3<'static, u8, 3>>();
        fn f<X: ::darling::FromField>() {}
        f::<G4<u8, u16>>();
    }
}
"#;

fn hygiene_src() -> String {
    let mut s = String::from("#![allow(non_camel_case_types, dead_code, non_snake_case, non_upper_case_globals, unused)]\n");
    for (name, shadow) in SHADOWS {
        s.push_str(&format!("mod h_{name} {{\n    {shadow}\n{HYGIENE_RECEIVERS}}}\n"));
    }
    s.push_str(HYGIENE_EXTRA);
    s.push_str("fn main() {}\n");
    s
}

fn generic_src() -> String {
    let mut s = String::from(GENERIC_HEAD);
    s.push_str(&generic_module("g_meta", "FromMeta", ""));
    for (m, tr) in [("g_di", "FromDeriveInput"), ("g_field", "FromField"), ("g_variant", "FromVariant"), ("g_tp", "FromTypeParam"), ("g_attrs", "FromAttributes")] {
        s.push_str(&generic_module(m, tr, "#[darling(attributes(a))]"));
    }
    s.push_str(GENERIC_TAIL);
    s
}


/// Negative crates: a closure that mentions a generated local / sibling slot must be rejected.
const NEGATIVES: [(&str, &str); 3] = [
    ("with", "#[derive(darling::FromMeta)] pub struct R { #[darling(with = |m| { let _ = &b; <u32 as darling::FromMeta>::from_meta(m) })] pub a: u32, pub b: u32 } fn main() {}"),
    ("from_word", "#[derive(darling::FromMeta)] #[darling(from_word = || { let _ = &__items; Ok(R { a: 1 }) })] pub struct R { pub a: u32 } fn main() {}"),
    ("from_none", "fn outer() { let captured = 5u32; #[derive(darling::FromMeta)] #[darling(from_none = || Some(R { a: captured }))] pub struct R { pub a: u32 } } fn main() {}"),
];

/// The hygiene receivers (fully qualified member types) in a crate of an older edition: what the
/// impls need must not depend on the 2021 prelude (`TryFrom`, `TryInto`, `FromIterator`).
fn write_edition_crate(name: &str, edition: &str) {
    let dir = harness_dir().join("gen").join(name);
    let toml = format!(
        "[package]\nname = \"{name}\"\nversion = \"0.0.0\"\nedition = \"{edition}\"\n[dependencies]\ndarling = {{ workspace = true, features = [\"suggestions\"] }}\nsyn = {{ workspace = true }}\n"
    );
    write_if_changed_pub(&dir.join("Cargo.toml"), &toml);
    let externs = if edition == "2015" { "extern crate core;\nextern crate darling;\nextern crate syn;\n" } else { "" };
    // in the 2015 edition `::name` is a path from the crate root, which the `extern crate` items
    // provide; `darling::X` inside a module needs the leading `::` there
    let recv = if edition == "2015" { HYGIENE_RECEIVERS.replace("#[derive(darling::", "#[derive(::darling::") } else { HYGIENE_RECEIVERS.to_string() };
    let src = format!("#![allow(dead_code, unused)]\n{externs}mod plain {{\n{recv}}}\nfn main() {{}}\n");
    write_if_changed_pub(&dir.join("src/main.rs"), &src);
}

fn write_crate(name: &str, src: &str) {
    let dir = harness_dir().join("gen").join(name);
    let toml = format!(
        "[package]\nname = \"{name}\"\nversion = \"0.0.0\"\nedition = \"2021\"\n[dependencies]\ndarling = {{ workspace = true, features = [\"suggestions\"] }}\nsyn = {{ workspace = true }}\n"
    );
    write_if_changed_pub(&dir.join("Cargo.toml"), &toml);
    write_if_changed_pub(&dir.join("src/main.rs"), src);
}

/// Receivers of unusual shapes (empty bodies, empty braced variants, all-skipped members,
/// flatten-only bodies, skipped multi-field tuple variants ...) x member options. Only the
/// declarations the derive accepts (no `compile_error!` in its output) are written out: those
/// must compile.
fn shapes_src() -> (String, usize) {
    let inner = "#[derive(Default, darling::FromMeta)] pub struct Inner { #[darling(default)] pub q: u32 }\n";
    let mut cands: Vec<(usize, String)> = vec![]; // (derive index, item source without derive attr)
    // FromMeta enums: every pair of variant forms
    let vforms = [
        "A", "#[darling(rename = \"z\")] A", "#[darling(word)] A", "#[darling(skip)] A", "A(u32)", "#[darling(skip)] A(u32)", "#[darling(skip)] A(u32, u32)", "A {}", "#[darling(skip)] A {}",
        "#[darling(rename = \"z\")] A {}", "A { x: u32 }", "A { #[darling(skip)] x: u32 }", "A { #[darling(flatten)] f: super::Inner }", "A { #[darling(flatten)] f: super::Inner, #[darling(skip)] s: u32 }",
        "A { #[darling(multiple)] m: Vec<u32>, #[darling(default)] d: u32 }", "A(super::Inner)", "A { r#type: u32 }",
    ];
    for (i, a) in vforms.iter().enumerate() {
        cands.push((0, format!("pub enum E {{ {a} }}")));
        for b in vforms.iter().skip(i % 3).step_by(3) {
            let b = b.replace("A", "B").replace("\"z\"", "\"y\"");
            cands.push((0, format!("pub enum E {{ {a}, {b} }}")));
            cands.push((0, format!("#[darling(rename_all = \"camelCase\")] pub enum E {{ {b}, {a} }}")));
        }
    }
    // struct bodies for every trait
    let bodies = [
        "{}", ";", "(u32);", "(super::Inner);", "();", "(u32, u32);", "(#[darling(skip)] u32);", "{ #[darling(skip)] a: u32 }", "{ #[darling(flatten)] f: super::Inner }", "{ #[darling(flatten)] f: super::Inner, #[darling(skip)] s: u32 }",
        "{ #[darling(skip)] s: u32, #[darling(flatten)] f: super::Inner }", "{ #[darling(multiple)] m: Vec<u32> }", "{ #[darling(multiple, default)] m: Vec<u32>, #[darling(skip)] s: Vec<u32> }",
        "{ r#type: u32, r#fn: Option<u32> }", "{ #[darling(skip, default = \"super::seven\")] a: u32, b: u32 }", "{ #[darling(skip = false)] a: u32 }",
    ];
    for b in bodies {
        // a newtype on FromDeriveInput / FromAttributes delegates to the inner type, which must
        // implement the trait itself: use a receiver of the same trait as the inner type
        cands.push((0, format!("pub struct S {b}")));
        cands.push((0, format!("#[darling(default)] pub struct S {b}")));
        cands.push((0, format!("#[darling(allow_unknown_fields)] pub struct S {b}")));
        for d in 1..6 {
            let b = if d == 1 || d == 5 { b.replace("(u32);", "(super::Same);").replace("(super::Inner);", "(super::Same);").replace("(#[darling(skip)] u32);", "(#[darling(skip)] super::Same);") } else { b.to_string() };
            cands.push((d, format!("#[darling(attributes(a))] pub struct S {b}")));
            cands.push((d, format!("#[darling(attributes(a), forward_attrs(doc))] pub struct S {b}")));
        }
    }
    let names = ["FromMeta", "FromDeriveInput", "FromField", "FromVariant", "FromTypeParam", "FromAttributes"];
    let mut src = String::from("#![allow(dead_code, non_camel_case_types, unused)]\n");
    src.push_str(inner);
    src.push_str("pub fn seven() -> u32 { 7 }\n");
    src.push_str("#[derive(darling::FromDeriveInput, darling::FromAttributes)] #[darling(attributes(a))] pub struct Same { #[darling(default)] pub q: u32 }\n");
    let mut n = 0;
    for (d, item) in cands {
        let Ok(di) = syn::parse_str::<syn::DeriveInput>(&item) else { continue };
        // `#[darling(default)]` needs Default: add the derive when the body allows it
        let wants_default = item.contains("#[darling(default)] pub struct");
        let out = match vrt::catch(std::panic::AssertUnwindSafe(|| (crate::c06::DERIVES[d].1)(&di).to_string())) {
            Ok(o) => o,
            Err(_) => continue, // C06 reports panics
        };
        if out.contains("compile_error") {
            continue; // not an accepted declaration
        }
        let extra = if wants_default { ", Default" } else { "" };
        src.push_str(&format!("mod m{n} {{ #[derive(darling::{}{extra})] {item} }}\n", names[d]));
        n += 1;
    }
    src.push_str("fn main() {}\n");
    (src, n)
}

pub fn generate_c20() -> (Vec<String>, Vec<String>) {
    write_crate("c20_generic", &generic_src());
    let (shapes, _n) = shapes_src();
    write_crate("c20_shapes", &shapes);
    write_crate("c20_hygiene", &hygiene_src());
    write_edition_crate("c20_edition2018", "2018");
    write_edition_crate("c20_edition2015", "2015");
    let mut neg = vec![];
    for (pos, src) in NEGATIVES {
        let n = format!("c20_neg_{pos}");
        write_crate(&n, src);
        neg.push(n);
    }
    (vec!["c20_generic".to_string(), "c20_shapes".to_string(), "c20_hygiene".to_string(), "c20_edition2018".to_string(), "c20_edition2015".to_string()], neg)
}

fn rustc_errors(stderr: &str) -> Vec<(String, String)> {
    // (first line of the error, the block) for each `error...` block
    let mut out = vec![];
    let mut cur: Option<(String, String)> = None;
    for line in stderr.lines() {
        if line.starts_with("error") && !line.starts_with("error: could not compile") && !line.starts_with("error: aborting") {
            if let Some(c) = cur.take() {
                out.push(c);
            }
            cur = Some((line.to_string(), String::new()));
        }
        if let Some(c) = &mut cur {
            if c.1.len() < 1500 {
                c.1.push_str(line);
                c.1.push('\n');
            }
        }
    }
    if let Some(c) = cur {
        out.push(c);
    }
    out
}

pub fn main(args: &Args) {
    if args.replay.is_some() {
        println!("C20 replay: re-run `./check C20`; the replay file holds the rustc diagnostics of the failing receiver crate");
        std::process::exit(0);
    }
    let mut rep = Report::new("C20", args.tier, "exploration");
    let mut specs = all_specs(args.tier);
    specs.push(clash_corpus());
    let mut pkgs: Vec<String> = vec![];
    let mut n_receivers = 0usize;
    for s in &specs {
        n_receivers += s.programs.iter().map(|p| p.decls.len()).sum::<usize>();
        pkgs.extend(generate(s));
    }
    pkgs.extend(crate::c16::generate_body(args.tier));
    pkgs.extend(crate::c18::generate_shape(args.tier));
    n_receivers += 96 + 166;
    let (pos, neg) = generate_c20();
    pkgs.extend(pos);
    rep.tally.evaluations = 0;
    // positive: everything must compile; build package by package groups so that one failing
    // crate does not hide the others
    let mut failed_pkgs = 0;
    match build(&pkgs) {
        Ok(()) => {
            rep.tally.evaluations += pkgs.len() as u64;
        }
        Err(_) => {
            for p in &pkgs {
                rep.tally.evaluations += 1;
                if let Err(e) = build(std::slice::from_ref(p)) {
                    failed_pkgs += 1;
                    let errs = rustc_errors(&e);
                    let first = errs.first().cloned().unwrap_or(("build failed".into(), e.chars().take(1500).collect()));
                    rep.tally.violate(Violation {
                        key: format!("C20 crate={p} :: {}", first.0),
                        what: format!("generated receivers in `{p}` do not compile: {} ({} rustc errors)", first.0, errs.len()),
                        case: json!({"engine": "rustc", "crate": p}),
                        detail: json!({"diagnostics": errs.iter().take(10).map(|e| e.1.clone()).collect::<Vec<_>>() }),
                    });
                }
            }
        }
    }
    // the same for a build of darling WITHOUT the `suggestions` feature (a separate cargo
    // invocation, otherwise feature unification switches it on): the suggestion corpus (flatten
    // chains, enums, struct variants with flatten members) and struct-corpus shards
    {
        let mut off_pkgs = generate(&sugg_corpus(false));
        let mut so = struct_corpus(Tier::Quick);
        so.name = "struct_off".into();
        so.suggestions = false;
        let sp = generate(&so);
        let take = if args.tier == Tier::Thorough { sp.len() } else { 2 };
        off_pkgs.extend(sp.into_iter().take(take));
        n_receivers += 13;
        rep.set("crates_built_without_suggestions", json!(off_pkgs.len()));
        if build(&off_pkgs).is_err() {
            for p in &off_pkgs {
                if let Err(e) = build(std::slice::from_ref(p)) {
                    failed_pkgs += 1;
                    let errs = rustc_errors(&e);
                    let first = errs.first().cloned().unwrap_or(("build failed".into(), e.chars().take(1500).collect()));
                    rep.tally.violate(Violation {
                        key: format!("C20 crate={p} (suggestions off) :: {}", first.0),
                        what: format!("generated receivers in `{p}` do not compile when darling is built without the `suggestions` feature: {} ({} rustc errors)", first.0, errs.len()),
                        case: json!({"engine": "rustc", "crate": p, "features": "no suggestions"}),
                        detail: json!({"diagnostics": errs.iter().take(10).map(|e| e.1.clone()).collect::<Vec<_>>() }),
                    });
                }
            }
        }
        rep.tally.evaluations += off_pkgs.len() as u64;
    }
    // negative: capturing closures must be rejected at each callable position
    for n in &neg {
        rep.tally.evaluations += 1;
        rep.tally.nontrivial += 1;
        match build(std::slice::from_ref(n)) {
            Ok(()) => rep.tally.violate(Violation {
                key: format!("C20 negative crate={n} compiled"),
                what: format!("`{n}`: a closure that captures a generated local / outer variable was accepted (callable is not coerced to a fn pointer)"),
                case: json!({"engine": "rustc", "crate": n}),
                detail: json!({}),
            }),
            Err(e) => {
                // it must fail for the right reason
                if !(e.contains("E0308") || e.contains("closures can only be coerced") || e.contains("E0425") || e.contains("E0434") || e.contains("mismatched types")) {
                    rep.tally.violate(Violation { key: format!("C20 negative crate={n} failed for another reason"), what: format!("`{n}` failed to build for an unexpected reason"), case: json!({"engine": "rustc", "crate": n}), detail: json!({"stderr": e.chars().take(2000).collect::<String>()}) });
                } else {
                    rep.tally.hit("negative_rejected");
                }
            }
        }
    }
    rep.tally.nontrivial += n_receivers as u64;
    rep.set("crates_built", json!(pkgs.len()));
    rep.set("receivers_compiled", json!(n_receivers));
    rep.set("crates_failed", json!(failed_pkgs));
    rep.tally.samples.push(json!({"crate": "clash_0", "receiver": "struct R0 { #[darling(default = fdef_0_0)] pub default: u32, pub gamma_x: R1, pub len: u32 } deriving FromMeta, module imports nothing"}));
    rep.tally.samples.push(json!({"negative": NEGATIVES[0].1}));
    rep.rule = format!(
        "rustc is the oracle: every generated receiver of the struct, enum, attribute, suggestion, body and shape corpora ({n_receivers} receivers in {} crates; each receiver module imports nothing, all helper paths are absolute) plus the name-clash corpus (50 identifiers - option words, un-prefixed generated locals, magic names on FromMeta, raw identifiers - as field names next to every field kind under 6 container configs and 6 traits, as variant names and struct-variant fields; prelude names as variants) plus generic receivers for all six traits whose unused / skipped parameters are instantiated with a type implementing no darling trait (an unnecessary bound fails the build) and flatten-only parameters (a missing bound fails the build), plus non-capturing closures in every callable position must compile; three negative crates with capturing closures must be rejected. distinct_nontrivial = receivers compiled + negative crates.",
        pkgs.len()
    );
    rep.assumptions = vec!["rustc (1.95) decides 'type-checks'; bounded-exhaustive over the stated option space instead of the statement's random crates".into()];
    if args.tier == Tier::Quick || true {
        rep.require(rep.tally.counters.get("negative_rejected").copied().unwrap_or(0) + rep.tally.violations.len() as u64 >= 1, "negative crates did not run");
    }
    rep.finish()
}
