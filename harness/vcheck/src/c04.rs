//! C04 (and the algebra half of C03) — error trees. A stack machine over the real
//! `darling::Error`, explored breadth-first with stateright next to a plain reference tree.
use crate::Args;
use darling_core::Error;
use proc_macro2::{Span, TokenStream};
use serde::{Deserialize, Serialize};
use serde_json::json;
use stateright::{Checker, Model, Property};
use std::sync::atomic::{AtomicU64, Ordering};
use std::sync::Mutex;
use vrt::{catch, Report, Tally, Violation};

#[derive(Clone, Copy, Debug, PartialEq, Eq, Hash, Serialize, Deserialize)]
pub enum Op {
    /// push a fresh leaf (kind chosen by its id, all eleven constructors in rotation)
    Leaf,
    /// push a leaf converted from a `syn::Error` (arrives with a span)
    SynLeaf,
    /// `.at(<fresh name>)` on the top
    At,
    /// `.at(<the name the previous At used>)` on the top (repeated segments such as `a/a`)
    AtSame,
    /// `.with_span(<next span of a pool of three>)` on the top
    WithSpan,
    Multiple1,
    Multiple2,
    Multiple3,
    Flatten,
    Clone,
    IntoIter,
    /// bundle the whole stack (structured probes only, never offered to the search)
    MultipleAll,
    /// `.at("")`: a location that renders as the empty string is still a location
    /// (structured probes only)
    AtEmpty,
    /// `add_sibling_alts_for_unknown_field` on a bundle (what a `flatten` member's parent does):
    /// the tree keeps its shape, locations and spans
    AddAlts,
    /// render the top (`to_string()`, `{:?}`, `len()`, `has_span()`): looking at an error changes
    /// nothing about it, whatever is done to it afterwards
    Render,
}

pub const OPS: [Op; 13] = [Op::Leaf, Op::SynLeaf, Op::At, Op::AtSame, Op::WithSpan, Op::Multiple1, Op::Multiple2, Op::Multiple3, Op::Flatten, Op::Clone, Op::IntoIter, Op::AddAlts, Op::Render];

const MAX_STACK: usize = 4;
const N_KINDS: u32 = 11;

/// Reference tree.
#[derive(Clone, Debug, PartialEq, Eq, Hash)]
pub enum RT {
    Leaf { id: u32, syn: bool, locs: Vec<String>, span: Option<u8> },
    Multi { kids: Vec<RT>, locs: Vec<String>, span: Option<u8> },
}

#[derive(Clone, Debug, PartialEq, Eq)]
pub struct RLeaf {
    id: u32,
    syn: bool,
    path: Vec<String>,
    span: Option<u8>,
}

impl RT {
    fn locs_mut(&mut self) -> &mut Vec<String> {
        match self {
            RT::Leaf { locs, .. } | RT::Multi { locs, .. } => locs,
        }
    }
    fn span_mut(&mut self) -> &mut Option<u8> {
        match self {
            RT::Leaf { span, .. } | RT::Multi { span, .. } => span,
        }
    }
    fn leaves(&self, prefix: &[String], inherited: Option<u8>, out: &mut Vec<RLeaf>) {
        match self {
            RT::Leaf { id, syn, locs, span } => {
                let mut path = prefix.to_vec();
                path.extend(locs.iter().cloned());
                out.push(RLeaf { id: *id, syn: *syn, path, span: span.or(inherited) });
            }
            RT::Multi { kids, locs, span } => {
                let mut p = prefix.to_vec();
                p.extend(locs.iter().cloned());
                for k in kids {
                    k.leaves(&p, span.or(inherited), out);
                }
            }
        }
    }
    fn all_leaves(&self) -> Vec<RLeaf> {
        let mut v = vec![];
        self.leaves(&[], None, &mut v);
        v
    }
    fn flattened(&self) -> RT {
        let ls = self.all_leaves();
        let mut kids: Vec<RT> = ls.into_iter().map(|l| RT::Leaf { id: l.id, syn: l.syn, locs: l.path, span: l.span }).collect();
        if kids.len() == 1 {
            kids.pop().unwrap()
        } else {
            RT::Multi { kids, locs: vec![], span: None }
        }
    }
    fn size(&self) -> usize {
        match self {
            RT::Leaf { .. } => 1,
            RT::Multi { kids, .. } => 1 + kids.iter().map(|k| k.size()).sum::<usize>(),
        }
    }
}

/// The kind-specific message of leaf `id`, produced by darling's own constructor so that a
/// reworded message is not an alarm.
pub fn make_leaf(id: u32, syn_leaf: bool, spans: &[Span]) -> Error {
    if syn_leaf {
        return Error::from(syn::Error::new(spans[3], format!("syn{id}")));
    }
    let n = format!("n{id}");
    match id % N_KINDS {
        0 => Error::custom(format!("custom{id}")),
        1 => Error::duplicate_field(&n),
        2 => Error::missing_field(&n),
        3 => Error::unknown_field(&n),
        4 => Error::unknown_field_with_alts(&n, &[format!("n{id}x"), "zzz".to_string()]),
        5 => Error::unsupported_shape(&n),
        6 => Error::unsupported_shape_with_expected(&n, &"something"),
        7 => Error::unsupported_format(&n),
        8 => Error::unexpected_type(&n),
        9 => Error::unknown_value(&n),
        _ => {
            if id % 2 == 0 {
                Error::too_few_items(id as usize)
            } else {
                Error::too_many_items(id as usize)
            }
        }
    }
}

fn kind_text(id: u32, syn_leaf: bool, spans: &[Span]) -> String {
    make_leaf(id, syn_leaf, spans).to_string()
}

fn span_pool() -> Vec<Span> {
    // four idents on one line: distinct, real column ranges
    let ts: TokenStream = "s0 s1 s2 s3".parse().unwrap();
    ts.into_iter().map(|t| t.span()).collect()
}

fn span_id(s: Option<Span>, pool: &[Span]) -> Result<Option<u8>, String> {
    match s {
        None => Ok(None),
        Some(s) => {
            let c = vrt::spans::cols(s);
            for (i, p) in pool.iter().enumerate() {
                if vrt::spans::cols(*p) == c {
                    return Ok(Some(i as u8));
                }
            }
            Err(format!("span {c:?} is none of the spans handed to the error"))
        }
    }
}

pub struct Machine {
    pub real: Vec<Error>,
    pub model: Vec<RT>,
    next_id: u32,
    next_name: u32,
    next_span: u8,
    pool: Vec<Span>,
}

impl Machine {
    pub fn new() -> Machine {
        Machine { real: vec![], model: vec![], next_id: 0, next_name: 0, next_span: 0, pool: span_pool() }
    }
    pub fn enabled(model: &[RT], op: Op) -> bool {
        let n = model.len();
        match op {
            Op::Leaf | Op::SynLeaf => n < MAX_STACK,
            Op::At | Op::AtSame | Op::WithSpan | Op::Flatten | Op::Multiple1 | Op::Render => n >= 1,
            Op::Multiple2 => n >= 2,
            Op::Multiple3 => n >= 3,
            Op::Clone => n >= 1 && n < MAX_STACK && model[n - 1].size() <= 6,
            Op::IntoIter => match model.last() {
                Some(RT::Multi { kids, .. }) => n - 1 + kids.len() <= MAX_STACK,
                Some(RT::Leaf { .. }) => true,
                None => false,
            },
            // only where it has something to walk: a bundle that contains a bundle
            Op::AddAlts => matches!(model.last(), Some(RT::Multi { kids, .. }) if kids.iter().any(|k| matches!(k, RT::Multi { .. }))),
            Op::MultipleAll | Op::AtEmpty => false,
        }
    }
    pub fn apply(&mut self, op: Op) {
        match op {
            Op::Leaf | Op::SynLeaf => {
                let id = self.next_id;
                self.next_id += 1;
                let syn = op == Op::SynLeaf;
                self.real.push(make_leaf(id, syn, &self.pool));
                self.model.push(RT::Leaf { id, syn, locs: vec![], span: if syn { Some(3) } else { None } });
            }
            Op::At => {
                self.next_name = next_name_of(&self.model) as u32;
                let name = format!("p{}", self.next_name);
                self.next_name += 1;
                let e = self.real.pop().unwrap();
                self.real.push(e.at(&name));
                self.model.last_mut().unwrap().locs_mut().insert(0, name);
            }
            Op::AtSame => {
                self.next_name = next_name_of(&self.model) as u32;
                let name = format!("p{}", self.next_name.saturating_sub(1));
                let e = self.real.pop().unwrap();
                self.real.push(e.at(&name));
                self.model.last_mut().unwrap().locs_mut().insert(0, name);
            }
            Op::AtEmpty => {
                let e = self.real.pop().unwrap();
                self.real.push(e.at(""));
                self.model.last_mut().unwrap().locs_mut().insert(0, String::new());
            }
            Op::WithSpan => {
                let sid = self.next_span % 3;
                self.next_span += 1;
                let e = self.real.pop().unwrap();
                self.real.push(e.with_span(&self.pool[sid as usize]));
                let s = self.model.last_mut().unwrap().span_mut();
                if s.is_none() {
                    *s = Some(sid);
                }
            }
            Op::Multiple1 | Op::Multiple2 | Op::Multiple3 => {
                let k = match op {
                    Op::Multiple1 => 1,
                    Op::Multiple2 => 2,
                    _ => 3,
                };
                let at = self.real.len() - k;
                let es: Vec<Error> = self.real.drain(at..).collect();
                self.real.push(Error::multiple(es));
                let mut ms: Vec<RT> = self.model.drain(at..).collect();
                self.model.push(if k == 1 { ms.pop().unwrap() } else { RT::Multi { kids: ms, locs: vec![], span: None } });
            }
            Op::MultipleAll => {
                let es: Vec<Error> = self.real.drain(..).collect();
                let k = es.len();
                self.real.push(Error::multiple(es));
                let mut ms: Vec<RT> = self.model.drain(..).collect();
                self.model.push(if k == 1 { ms.pop().unwrap() } else { RT::Multi { kids: ms, locs: vec![], span: None } });
            }
            Op::Flatten => {
                let e = self.real.pop().unwrap();
                self.real.push(e.flatten());
                let m = self.model.pop().unwrap();
                self.model.push(m.flattened());
            }
            Op::Clone => {
                let e = self.real.last().unwrap().clone();
                self.real.push(e);
                let m = self.model.last().unwrap().clone();
                self.model.push(m);
            }
            Op::AddAlts => {
                let e = self.real.pop().unwrap();
                self.real.push(e.add_sibling_alts_for_unknown_field(&["zqzqzq", "qzqzqz"]));
            }
            Op::Render => {
                let e = self.real.last().unwrap();
                let _ = (e.to_string(), format!("{e:?}"), e.len(), e.has_span());
            }
            Op::IntoIter => {
                let e = self.real.pop().unwrap();
                self.real.extend(e);
                match self.model.pop().unwrap() {
                    RT::Multi { kids, .. } => self.model.extend(kids),
                    leaf => self.model.push(leaf),
                }
            }
        }
    }

    /// Compares one real error with its reference tree. `spans`: also apply the C03 rules.
    pub fn compare(&self, e: &Error, m: &RT, spans: bool, only_spans: bool) -> Result<(), String> {
        let pool = &self.pool;
        let leaves = m.all_leaves();
        if !only_spans {
            if e.len() != leaves.len() {
                return Err(format!("len() = {} but the tree has {} leaves", e.len(), leaves.len()));
            }
            if e.len() == 0 {
                return Err("len() = 0".into());
            }
        }
        // flatten: leaves left to right with full outer-to-inner paths
        let flat: Vec<Error> = e.clone().flatten().into_iter().collect();
        if flat.len() != leaves.len() {
            return if only_spans { Ok(()) } else { Err(format!("flatten() yields {} errors for {} leaves", flat.len(), leaves.len())) };
        }
        for (i, (f, l)) in flat.iter().zip(&leaves).enumerate() {
            if !only_spans {
                let mut want = kind_text(l.id, l.syn, pool);
                if !l.path.is_empty() {
                    want.push_str(" at ");
                    want.push_str(&l.path.join("/"));
                }
                if f.to_string() != want {
                    return Err(format!("flattened leaf {i} displays `{f}`, expected `{want}`"));
                }
                if f.len() != 1 {
                    return Err(format!("flattened leaf {i} has len() {}", f.len()));
                }
            }
            if spans {
                let got = span_id(f.explicit_span(), pool)?;
                if got != l.span {
                    return Err(format!(
                        "flattened leaf {i} (`{f}`) has span {}, expected {} (own span, else nearest spanned enclosing bundle)",
                        show_span(got),
                        show_span(l.span)
                    ));
                }
            }
        }
        // flatten twice = flatten once
        let twice: Vec<Error> = e.clone().flatten().flatten().into_iter().collect();
        let a: Vec<(String, Option<(usize, usize)>)> = flat.iter().map(|x| (x.to_string(), x.explicit_span().and_then(vrt::spans::cols))).collect();
        let b: Vec<(String, Option<(usize, usize)>)> = twice.iter().map(|x| (x.to_string(), x.explicit_span().and_then(vrt::spans::cols))).collect();
        if (only_spans || spans) && a != b || (!only_spans && a.iter().map(|x| &x.0).ne(b.iter().map(|x| &x.0))) {
            return Err(format!("flatten().flatten() {b:?} differs from flatten() {a:?}"));
        }
        // one-level iteration
        if !only_spans {
            let kids: Vec<Error> = e.clone().into_iter().collect();
            match m {
                RT::Leaf { .. } => {
                    if kids.len() != 1 || kids[0].to_string() != e.to_string() {
                        return Err("into_iter() of a single error does not yield that error".into());
                    }
                }
                RT::Multi { kids: mk, .. } => {
                    if kids.len() != mk.len() {
                        return Err(format!("into_iter() yields {} errors, the bundle has {} members", kids.len(), mk.len()));
                    }
                    for (k, mk) in kids.iter().zip(mk) {
                        let n = mk.all_leaves().len();
                        if k.len() != n {
                            return Err(format!("into_iter() member has len {} expected {}", k.len(), n));
                        }
                    }
                }
            }
            // Display of the whole tree: every leaf's message with its own ` at path`, in
            // left-to-right order, each bundle's own ` at path` after its last member
            {
                fn pieces(m: &RT, pool: &[Span], out: &mut Vec<String>) {
                    match m {
                        RT::Leaf { id, syn, locs, .. } => {
                            let mut p = kind_text(*id, *syn, pool);
                            if !locs.is_empty() {
                                p.push_str(" at ");
                                p.push_str(&locs.join("/"));
                            }
                            out.push(p);
                        }
                        RT::Multi { kids, locs, .. } => {
                            for k in kids {
                                pieces(k, pool, out);
                            }
                            if !locs.is_empty() {
                                out.push(format!(" at {}", locs.join("/")));
                            }
                        }
                    }
                }
                let mut want = vec![];
                pieces(m, pool, &mut want);
                let d = e.to_string();
                let mut from = 0usize;
                for (i, p) in want.iter().enumerate() {
                    match d[from..].find(p.as_str()) {
                        Some(k) => from += k + p.len(),
                        None => return Err(format!("Display `{d}` does not show `{p}` (piece {i} of {want:?}, searched in order)")),
                    }
                }
            }
            // top-level Display: kind text, then ` at path` when located
            let own_locs = match m {
                RT::Leaf { locs, .. } | RT::Multi { locs, .. } => locs,
            };
            let d = e.to_string();
            if own_locs.is_empty() {
                if let RT::Leaf { id, syn, .. } = m {
                    if d != kind_text(*id, *syn, pool) {
                        return Err(format!("Display `{d}` of an unlocated error is not its kind message"));
                    }
                }
            } else {
                let suffix = format!(" at {}", own_locs.join("/"));
                if !d.ends_with(&suffix) {
                    return Err(format!("Display `{d}` does not end with `{suffix}`"));
                }
            }
        }
        // compiler diagnostics: exactly one per leaf, in order, with the leaf's message
        let se = syn::Error::from(e.clone());
        let diags: Vec<syn::Error> = se.into_iter().collect();
        if diags.len() != leaves.len() {
            return if only_spans { Ok(()) } else { Err(format!("{} diagnostics for {} leaves", diags.len(), leaves.len())) };
        }
        for (i, (d, l)) in diags.iter().zip(&leaves).enumerate() {
            let kind = kind_text(l.id, l.syn, pool);
            let mut full = kind.clone();
            if !l.path.is_empty() {
                full.push_str(" at ");
                full.push_str(&l.path.join("/"));
            }
            let msg = d.to_string();
            if !only_spans && msg != kind && msg != full {
                return Err(format!("diagnostic {i} says `{msg}`, expected `{kind}` or `{full}`"));
            }
            // a leaf without any span (own or inherited) has nowhere to point: its message
            // must carry the path
            if !spans && l.span.is_none() && !l.syn && msg != full {
                return Err(format!("diagnostic {i} for an unspanned leaf says `{msg}`, expected `{full}` (path included)"));
            }
            if spans {
                match l.span {
                    Some(sid) => {
                        if vrt::spans::cols(d.span()) != vrt::spans::cols(pool[sid as usize]) {
                            return Err(format!("diagnostic {i} (`{msg}`) is not at the leaf's span {}", show_span(l.span)));
                        }
                    }
                    None => {
                        // unspanned: rendered message must include the location path
                        if msg != full {
                            return Err(format!("diagnostic {i} for an unspanned leaf says `{msg}`, expected `{full}` (path included)"));
                        }
                    }
                }
            }
        }
        // write_errors(): one compile_error! per leaf, in order
        let toks = e.clone().write_errors();
        let file: syn::File = syn::parse2(toks).map_err(|x| format!("write_errors() output does not parse: {x}"))?;
        let mut n = 0;
        for (i, it) in file.items.iter().enumerate() {
            match it {
                syn::Item::Macro(m) if m.mac.path.segments.last().map(|s| s.ident == "compile_error").unwrap_or(false) => {
                    n += 1;
                    if let (Some(l), Ok(lit)) = (leaves.get(i), syn::parse2::<syn::LitStr>(m.mac.tokens.clone())) {
                        let kind = kind_text(l.id, l.syn, pool);
                        let mut full = kind.clone();
                        if !l.path.is_empty() {
                            full.push_str(" at ");
                            full.push_str(&l.path.join("/"));
                        }
                        let msg = lit.value();
                        if !only_spans && msg != kind && msg != full {
                            return Err(format!("compile_error {i} says `{msg}`, expected the message of leaf {i}: `{kind}` or `{full}`"));
                        }
                        // the two conversions to compiler output must tell the same story
                        if !only_spans && msg != diags[i].to_string() {
                            return Err(format!("compile_error {i} says `{msg}` but syn::Error::from gives `{}` for the same leaf", diags[i]));
                        }
                        if spans && l.span.is_none() && msg != full {
                            return Err(format!("compile_error {i} for an unspanned leaf says `{msg}`, expected `{full}` (path included)"));
                        }
                        if spans {
                            if let Some(sid) = l.span {
                                if vrt::spans::cols(lit.span()) != vrt::spans::cols(pool[sid as usize]) {
                                    return Err(format!("compile_error {i} tokens are not at the leaf's span {}", show_span(l.span)));
                                }
                            }
                        }
                    }
                }
                _ => return Err("write_errors() emitted something other than compile_error!".into()),
            }
        }
        if n != leaves.len() && !only_spans {
            return Err(format!("write_errors() emitted {n} compile_error! for {} leaves", leaves.len()));
        }
        Ok(())
    }
}

fn show_span(s: Option<u8>) -> String {
    match s {
        None => "none".into(),
        Some(i) => format!("s{i}"),
    }
}

/// Replays a history; checks the top of the stack (all elements after IntoIter).
pub fn check_history(hist: &[Op], spans: bool, only_spans: bool) -> Result<(), String> {
    let mut m = Machine::new();
    for op in hist {
        m.apply(*op);
    }
    let r = (|| {
        if m.real.len() != m.model.len() {
            return Err(format!("stack has {} errors, expected {}", m.real.len(), m.model.len()));
        }
        let all = hist.last() == Some(&Op::IntoIter);
        let n = m.real.len();
        for i in 0..n {
            if all || i + 1 == n {
                m.compare(&m.real[i], &m.model[i], spans, only_spans)?;
            }
        }
        Ok(())
    })();
    vrt::spans::reset();
    r
}

#[derive(Clone, Debug)]
pub struct S {
    model: Vec<RT>,
    hist: Vec<Op>,
}
impl PartialEq for S {
    fn eq(&self, o: &S) -> bool {
        self.model == o.model && self.span_phase() == o.span_phase() && self.hist.len() == o.hist.len()
    }
}
impl Eq for S {}
impl std::hash::Hash for S {
    fn hash<H: std::hash::Hasher>(&self, h: &mut H) {
        self.model.hash(h);
        self.span_phase().hash(h);
        // depth is part of the key: under parallel search a merged state could otherwise be
        // first reached at a larger depth and lose successors to the depth bound
        self.hist.len().hash(h);
    }
}
impl S {
    /// Which span the next WithSpan hands out is part of the state (it decides futures).
    fn span_phase(&self) -> usize {
        self.hist.iter().filter(|o| **o == Op::WithSpan).count() % 3
    }
}

struct TreeModel {
    /// distinct successor states seen by `next_state` (sharded; stateright's own counter is
    /// not stable under parallel search)
    seen: Vec<Mutex<std::collections::HashSet<u64>>>,
    depth: usize,
    spans: bool,
    only_spans: bool,
    prop: &'static str,
    transitions: AtomicU64,
    tally: Mutex<Tally>,
}

/// The next fresh location name is a function of the reference stack (1 + the largest index still
/// present), not of the history: `into_iter` drops a bundle's own locations, and two histories
/// reaching the same stack must have the same successors for the merge to be deterministic.
fn next_name_of(model: &[RT]) -> usize {
    fn walk(t: &RT, best: &mut Option<usize>) {
        let (locs, kids): (&Vec<String>, &[RT]) = match t {
            RT::Leaf { locs, .. } => (locs, &[]),
            RT::Multi { locs, kids, .. } => (locs, kids),
        };
        for l in locs {
            if let Some(n) = l.strip_prefix('p').and_then(|x| x.parse::<usize>().ok()) {
                *best = Some(best.map_or(n, |b| b.max(n)));
            }
        }
        for k in kids {
            walk(k, best);
        }
    }
    let mut best = None;
    for t in model {
        walk(t, &mut best);
    }
    best.map_or(0, |b| b + 1)
}

fn model_step(model: &[RT], hist: &[Op], op: Op) -> Vec<RT> {
    // pure model-side transition (no real errors involved)
    let mut m = model.to_vec();
    let next_id = hist.iter().filter(|o| matches!(o, Op::Leaf | Op::SynLeaf)).count() as u32;
    let next_name = next_name_of(model);
    let next_span = (hist.iter().filter(|o| **o == Op::WithSpan).count() % 3) as u8;
    match op {
        Op::Leaf => m.push(RT::Leaf { id: next_id, syn: false, locs: vec![], span: None }),
        Op::SynLeaf => m.push(RT::Leaf { id: next_id, syn: true, locs: vec![], span: Some(3) }),
        Op::At => m.last_mut().unwrap().locs_mut().insert(0, format!("p{next_name}")),
        Op::AtSame => m.last_mut().unwrap().locs_mut().insert(0, format!("p{}", next_name.saturating_sub(1))),
        Op::WithSpan => {
            let s = m.last_mut().unwrap().span_mut();
            if s.is_none() {
                *s = Some(next_span);
            }
        }
        Op::Multiple1 => {}
        Op::Multiple2 | Op::Multiple3 => {
            let k = if op == Op::Multiple2 { 2 } else { 3 };
            let at = m.len() - k;
            let ms: Vec<RT> = m.drain(at..).collect();
            m.push(RT::Multi { kids: ms, locs: vec![], span: None });
        }
        Op::Flatten => {
            let t = m.pop().unwrap();
            m.push(t.flattened());
        }
        Op::Clone => {
            let t = m.last().unwrap().clone();
            m.push(t);
        }
        Op::AddAlts | Op::Render => {}
        Op::MultipleAll | Op::AtEmpty => unreachable!("not offered to the search"),
        Op::IntoIter => match m.pop().unwrap() {
            RT::Multi { kids, .. } => m.extend(kids),
            leaf => m.push(leaf),
        },
    }
    m
}

impl Model for TreeModel {
    type State = S;
    type Action = Op;
    fn init_states(&self) -> Vec<S> {
        vec![S { model: vec![], hist: vec![] }]
    }
    fn actions(&self, s: &S, out: &mut Vec<Op>) {
        if s.hist.len() < self.depth {
            for op in OPS {
                if Machine::enabled(&s.model, op) {
                    out.push(op);
                }
            }
        }
    }
    fn next_state(&self, s: &S, a: Op) -> Option<S> {
        self.transitions.fetch_add(1, Ordering::Relaxed);
        let model = model_step(&s.model, &s.hist, a);
        let mut hist = s.hist.clone();
        hist.push(a);
        let next = S { model, hist };
        {
            use std::hash::{Hash, Hasher};
            let mut h = std::collections::hash_map::DefaultHasher::new();
            next.hash(&mut h);
            let k = h.finish();
            self.seen[(k % self.seen.len() as u64) as usize].lock().unwrap().insert(k);
        }
        // Every TRANSITION is replayed on the real code and judged, not only every state: with
        // states merged on the reference stack, a transition into an already visited state
        // would otherwise never be compared with the implementation.
        self.judge(&next);
        Some(next)
    }
    fn properties(&self) -> Vec<Property<Self>> {
        vec![Property::always("real Error agrees with the reference tree (judged per transition)", |_m: &TreeModel, _s: &S| true)]
    }
}

impl TreeModel {
    fn judge(&self, s: &S) {
        let m = self;
        let mut t = Tally::default();
        t.evaluations += 1;
        t.traces += 1;
        let nleaves: usize = s.model.last().map(|x| x.all_leaves().len()).unwrap_or(0);
        let bundles = s.model.last().map(|x| x.size() - nleaves).unwrap_or(0);
        if bundles > 0 {
            t.nontrivial += 1;
        }
        t.class(&format!("leaves={} bundles={}", nleaves.min(5), bundles.min(3)));
        let hist = s.hist.clone();
        let (sp, os) = (m.spans, m.only_spans);
        match catch(std::panic::AssertUnwindSafe(|| {
            let mut mach = Machine::new();
            for op in &hist {
                mach.apply(*op);
            }
            // the replayed model must equal the state the checker holds
            if mach.model != s.model {
                return Err("machinery: replayed model differs from checker state".to_string());
            }
            drop(mach);
            check_history(&hist, sp, os)
        })) {
            Ok(Ok(())) => {}
            Ok(Err(msg)) => t.violate(violation(m.prop, &hist, msg)),
            Err(p) => t.violate(violation(m.prop, &hist, format!("panic: {p}"))),
        }
        let mut g = m.tally.lock().unwrap();
        let cur = std::mem::take(&mut *g);
        *g = cur.merge(t);
    }
}

fn violation(prop: &str, hist: &[Op], msg: String) -> Violation {
    Violation {
        key: format!("{prop} algebra hist={hist:?} :: {msg}"),
        what: format!("history {hist:?}: {msg}"),
        case: json!({"engine": "algebra", "hist": hist}),
        detail: json!({"message": msg}),
    }
}

/// Runs the exploration and returns the tally (used by C04 directly and by C03 for spans).
pub fn explore(prop: &'static str, depth: usize, spans: bool, only_spans: bool) -> (Tally, serde_json::Value) {
    let model = TreeModel { seen: (0..64).map(|_| Mutex::new(Default::default())).collect(), depth, spans, only_spans, prop, transitions: AtomicU64::new(0), tally: Mutex::new(Tally::default()) };
    let threads: usize = std::env::var("C04_THREADS").ok().and_then(|s| s.parse().ok()).unwrap_or(16);
    let checker = model.checker().threads(threads).spawn_bfs().join();
    // distinct states = the initial state + distinct successors
    let states = 1 + checker.model().seen.iter().map(|m| m.lock().unwrap().len() as u64).sum::<u64>();
    let maxd = checker.max_depth();
    let m = checker.model();
    let mut t = std::mem::take(&mut *m.tally.lock().unwrap());
    t.states = states;
    t.transitions = m.transitions.load(Ordering::Relaxed);
    (t, json!({"stateright_unique_states": states, "stateright_max_depth": maxd, "history_depth_bound": depth}))
}

/// Wide and deep trees beyond the depth of the exhaustive search: bundles of 4..130 members,
/// nesting to 65 levels, bundles of located bundles; each with and without spans / flattening.
pub fn structured(prop: &'static str, spans: bool, only_spans: bool) -> Tally {
    let sizes = [4usize, 5, 8, 9, 16, 17, 32, 33, 64, 65, 130];
    let mut hists: Vec<Vec<Op>> = vec![];
    for &w in &sizes {
        for tail in [vec![], vec![Op::At], vec![Op::At, Op::WithSpan], vec![Op::WithSpan, Op::At, Op::Flatten], vec![Op::At, Op::Flatten, Op::Flatten]] {
            // w plain leaves, every third located, every fifth arriving from syn
            let mut h = vec![];
            for i in 0..w {
                h.push(if i % 5 == 4 { Op::SynLeaf } else { Op::Leaf });
                if i % 3 == 1 {
                    h.push(Op::At);
                }
                if spans && i % 4 == 2 {
                    h.push(Op::WithSpan);
                }
            }
            h.push(Op::MultipleAll);
            h.extend(tail.iter().copied());
            hists.push(h);
            // w/2 located pairs, bundled
            let mut h = vec![];
            for _ in 0..w / 2 {
                h.extend([Op::Leaf, Op::Leaf, Op::Multiple2, Op::At]);
            }
            h.push(Op::MultipleAll);
            h.extend(tail.iter().copied());
            hists.push(h);
        }
    }
    for &d in &[4usize, 5, 8, 9, 16, 17, 33, 65] {
        for tail in [vec![], vec![Op::Flatten], vec![Op::WithSpan, Op::Flatten]] {
            let mut h = vec![Op::Leaf];
            for i in 0..d {
                h.extend([Op::Leaf, Op::Multiple2, if i % 2 == 0 { Op::At } else { Op::AtSame }]);
            }
            h.extend(tail.iter().copied());
            hists.push(h);
        }
    }
    // locations that render as the empty string: alone, first, last, on a bundle
    for h in [
        vec![Op::Leaf, Op::AtEmpty],
        vec![Op::Leaf, Op::AtEmpty, Op::At],
        vec![Op::Leaf, Op::At, Op::AtEmpty],
        vec![Op::Leaf, Op::AtEmpty, Op::AtEmpty],
        vec![Op::Leaf, Op::Leaf, Op::Multiple2, Op::AtEmpty],
        vec![Op::Leaf, Op::AtEmpty, Op::Leaf, Op::Multiple2, Op::AtEmpty, Op::Flatten],
        vec![Op::Leaf, Op::Leaf, Op::AtEmpty, Op::Multiple2, Op::At, Op::Leaf, Op::Multiple2, Op::AtEmpty],
    ] {
        hists.push(h);
    }
    let mut t = Tally::default();
    for h in hists {
        t.evaluations += 1;
        t.traces += 1;
        t.nontrivial += 1;
        t.hit("structured_trees");
        match catch(std::panic::AssertUnwindSafe(|| check_history(&h, spans, only_spans))) {
            Ok(Ok(())) => {}
            Ok(Err(msg)) => t.violate(violation(prop, &h, msg)),
            Err(p) => t.violate(violation(prop, &h, format!("panic: {p}"))),
        }
    }
    t
}

pub fn replay(case: &serde_json::Value, spans: bool, only_spans: bool) -> bool {
    if case["engine"] == "message-probe" {
        let t = message_probe();
        for v in &t.violations {
            println!("replay: {}", v.what);
        }
        return t.violations.is_empty();
    }
    let hist: Vec<Op> = serde_json::from_value(case["hist"].clone()).unwrap();
    match catch(std::panic::AssertUnwindSafe(|| check_history(&hist, spans, only_spans))) {
        Ok(Ok(())) => {
            println!("replay {hist:?}: ok");
            true
        }
        Ok(Err(m)) => {
            println!("replay {hist:?}: DISAGREES: {m}");
            false
        }
        Err(p) => {
            println!("replay {hist:?}: PANIC {p}");
            false
        }
    }
}

/// The kind-specific message carries what the constructor was given: every argument appears in
/// the text, two kinds never share a text for the same argument, two arguments never share a text
/// for the same kind, `custom` is the text itself, and a location is appended as ` at <path>`.
/// (Wording is free; dropping or merging information is not.)
fn message_probe() -> Tally {
    let mut t = Tally::default();
    let args = ["alpha_q", "beta_w"];
    type Mk = (&'static str, fn(&str) -> Error, fn(&str) -> Vec<String>);
    let one = |a: &str| vec![a.to_string()];
    let kinds: Vec<Mk> = vec![
        ("custom", |a| Error::custom(a), one),
        ("duplicate_field", |a| Error::duplicate_field(a), one),
        ("missing_field", |a| Error::missing_field(a), one),
        ("unknown_field", |a| Error::unknown_field(a), one),
        ("unknown_field_with_alts", |a| Error::unknown_field_with_alts(a, &["zzzz"]), one),
        ("unsupported_shape", |a| Error::unsupported_shape(a), one),
        ("unsupported_shape_with_expected", |a| Error::unsupported_shape_with_expected(a, &format!("exp_{a}")), |a| vec![a.to_string(), format!("exp_{a}")]),
        ("unsupported_format", |a| Error::unsupported_format(a), one),
        ("unexpected_type", |a| Error::unexpected_type(a), one),
        ("unknown_value", |a| Error::unknown_value(a), one),
        ("too_few_items", |a| Error::too_few_items(a.len() * 1000 + 7), |a| vec![(a.len() * 1000 + 7).to_string()]),
        ("too_many_items", |a| Error::too_many_items(a.len() * 1000 + 7), |a| vec![(a.len() * 1000 + 7).to_string()]),
        ("unknown_field_path", |a| Error::unknown_field_path(&syn::parse_str(&format!("{a}::tail")).unwrap()), |a| vec![a.to_string(), "tail".into()]),
        ("duplicate_field_path", |a| Error::duplicate_field_path(&syn::parse_str(&format!("{a}::tail")).unwrap()), |a| vec![a.to_string(), "tail".into()]),
        ("missing_field_with_type", |a| Error::missing_field(&format!("{a}_m")), |a| vec![format!("{a}_m")]),
    ];
    let mut texts: Vec<(String, String, String)> = vec![];
    for (kind, mk, want) in &kinds {
        for a in args {
            t.evaluations += 1;
            t.nontrivial += 1;
            t.hit("message_probe");
            let bad = |msg: String, t: &mut Tally| {
                t.violate(Violation { key: format!("C04 message {kind}({a}) :: {msg}"), what: format!("Error::{kind}(`{a}`): {msg}"), case: json!({"engine": "message-probe"}), detail: json!({}) })
            };
            let e = match catch(std::panic::AssertUnwindSafe(|| mk(a))) {
                Ok(e) => e,
                Err(p) => {
                    bad(format!("panicked: {p}"), &mut t);
                    continue;
                }
            };
            let text = e.to_string();
            for w in want(a) {
                if !text.contains(&w) {
                    bad(format!("the message `{text}` does not mention `{w}`"), &mut t);
                }
            }
            if *kind == "custom" && text != a {
                bad(format!("a custom message displays as `{text}`"), &mut t);
            }
            // located: the same text followed by ` at <path>`; a bundle shows every member's text
            let located = e.clone().at("loc_a").at("loc_b").to_string();
            if located != format!("{text} at loc_b/loc_a") {
                bad(format!("located twice it displays `{located}`, expected `{text} at loc_b/loc_a`"), &mut t);
            }
            let bundle = Error::multiple(vec![e.clone(), Error::custom("other_leaf").at("o")]).to_string();
            if !bundle.contains(&text) || !bundle.contains("other_leaf at o") {
                bad(format!("a bundle holding it displays `{bundle}`"), &mut t);
            }
            let first = syn::Error::from(e.clone()).into_iter().next().map(|d| d.to_string()).unwrap_or_default();
            if first != text {
                bad(format!("its diagnostic reads `{first}`, its Display `{text}`"), &mut t);
            }
            texts.push((kind.to_string(), a.to_string(), text));
        }
    }
    // one diagnostic per leaf also when one leaf "explains" another: an unknown name with a
    // suggestion next to the missing member it suggests, at the same location
    {
        let mk = || {
            Error::multiple(vec![
                Error::unknown_field_with_alts("levl", &["level", "other"]).at("opts"),
                Error::missing_field("level").at("opts"),
                Error::unknown_field_with_alts("levl", &["level", "other"]).at("opts"),
                Error::duplicate_field("level").at("opts"),
                Error::missing_field("level").at("opts"),
            ])
            .at("outer")
        };
        t.evaluations += 1;
        t.nontrivial += 1;
        t.hit("message_probe");
        let leaves = mk().flatten().len();
        let diags = syn::Error::from(mk()).into_iter().count();
        let written = mk().write_errors().to_string().matches("compile_error").count();
        if leaves != 5 || diags != 5 || written != 5 {
            t.violate(Violation { key: format!("C04 message implied :: {leaves}/{diags}/{written}"), what: format!("five leaves of which some explain others (unknown `levl` with a suggestion, missing `level`, twice, and a duplicate): len/flatten {leaves}, diagnostics {diags}, compile_error! items {written} - expected 5 each"), case: json!({"engine": "message-probe"}), detail: json!({}) });
        }
    }
    // a location is kept as given: raw identifiers, empty and odd segments
    for seg in ["r#type", "r#a", "type", "", " ", "a/b", "a b", "0", "r#", "é"] {
        t.evaluations += 1;
        t.hit("message_probe");
        let e = Error::custom("m").at(seg).at("outer");
        let want = format!("m at outer/{seg}");
        let got = e.to_string();
        let flat: Vec<String> = Error::multiple(vec![Error::custom("m").at(seg), Error::custom("n")]).at("outer").flatten().into_iter().map(|l| l.to_string()).collect();
        if got != want || flat.first() != Some(&want) {
            t.violate(Violation { key: format!("C04 message location `{seg}` :: {got}"), what: format!("a leaf located at `{seg}` then `outer` displays `{got}` (flattened from a bundle: {flat:?}), expected `{want}`"), case: json!({"engine": "message-probe"}), detail: json!({}) });
        }
    }
    for (i, (k1, a1, t1)) in texts.iter().enumerate() {
        for (k2, a2, t2) in texts.iter().skip(i + 1) {
            // the two unknown-field spellings of one name may coincide (no alternative is close)
            let same_family = |k: &str| k.starts_with("unknown_field") && !k.contains("path");
            if t1 == t2 && !(a1 == a2 && same_family(k1) && same_family(k2)) && !(k1.starts_with("missing_field") && k2.starts_with("missing_field")) {
                t.violate(Violation { key: format!("C04 message clash {k1}({a1}) {k2}({a2})"), what: format!("Error::{k1}(`{a1}`) and Error::{k2}(`{a2}`) display the same text `{t1}`"), case: json!({"engine": "message-probe"}), detail: json!({}) });
            }
        }
    }
    t
}

pub fn main(args: &Args) {
    if let Some(p) = &args.replay {
        let ok = replay(&crate::load_case(p), false, false);
        std::process::exit(if ok { 0 } else { 1 });
    }
    let mut rep = Report::new("C04", args.tier, "model_checking");
    let depth = args.tier.pick(8, 9);
    let (t, extra) = explore("C04", depth, false, false);
    rep.absorb(t);
    rep.absorb(structured("C04", false, false));
    rep.absorb(message_probe());
    for (k, v) in extra.as_object().unwrap() {
        rep.set(k, v.clone());
    }
    rep.rule = format!(
        "stateright BFS over build histories of length <= {depth} on a stack (<= {MAX_STACK}) of real darling::Error values; operations {OPS:?}; leaves rotate through all 11 constructors + syn::Error conversion; states are merged on the reference stack and the depth (argument in DESIGN.md C04); EVERY TRANSITION's history (not only the first history reaching a state) is replayed on the real code and compared with the reference tree (len, flatten order/paths/Display, flatten idempotence, into_iter, syn::Error diagnostics, write_errors); plus structured trees beyond that depth (bundles of 4..130 members, nests to 65 levels, empty-string locations; exhaustive over the listed shapes only); non-trivial = top of stack contains at least one bundle"
    );
    rep.assumptions = vec!["kind-specific message wording is taken from darling's own constructors (rewording is not an alarm); a separate probe requires each of 15 constructors' texts to mention every argument, to differ between kinds and between arguments, and to equal the diagnostic text".into()];
    rep.tally.samples.push(json!({"history": ["Leaf", "Leaf", "Multiple2", "At", "Leaf", "Multiple2", "At", "Flatten"], "expect": "3 leaves; first two display `.. at p1/p0`, third `.. at p1`"}));
    rep.require(rep.tally.states >= 1000, "state space suspiciously small");
    rep.require(rep.tally.outcome_classes.len() >= 8, "too few outcome classes");
    rep.finish()
}
