//! C19 — generic-parameter usage analysis and the bounds the derives add. Types are generated
//! as constructor spines with parameters planted at known use / non-use positions, so the
//! expected answer is known by construction.
use crate::c06::DERIVES;
use crate::Args;
use darling_core::usage::{CollectLifetimes, CollectTypeParams, IdentSet, LifetimeSet, Purpose, UsesLifetimes, UsesTypeParams};
use quote::ToTokens;
use rayon::prelude::*;
use serde_json::json;
use vrt::{catch, Report, Tally, Violation};

/// A generated type with the parameters it uses: bits 0..2 = T, U, X; bits 3..4 = 'a, 'b.
/// `bi` for Purpose::BoundImpl, `decl` for Purpose::Declare.
#[derive(Clone, Debug)]
pub struct G {
    pub text: String,
    pub bi: u8,
    pub decl: u8,
}

fn g(text: &str, m: u8) -> G {
    G { text: text.to_string(), bi: m, decl: m }
}

const T: u8 = 1;
const U: u8 = 2;
const X: u8 = 4;
const LA: u8 = 8;
const LB: u8 = 16;

fn bottoms() -> Vec<G> {
    vec![
        g("T", T),
        g("U", U),
        g("X", X),
        g("i32", 0),
        g("T::Item", T),
        g("T::Out<U>", T | U),
        g("U::Out<Vec<X>, 'a>", U | X | LA),
        g("foo::T", 0),
        g("::T", 0),
        g("self::U::X", 0),
        g("m!(T)", 0),
        g("!", 0),
        g("_", 0),
        g("&'a str", LA),
    ]
}

fn others() -> Vec<G> {
    vec![g("T", T), g("U", U), g("X", X), g("i32", 0)]
}

fn lifetimes() -> Vec<G> {
    vec![g("'a", LA), g("'b", LB), g("'static", 0)]
}

/// Every one-step extension of the spine `s`.
fn extend(s: &G) -> Vec<G> {
    let mut out = vec![];
    let mut un = |fmt: &dyn Fn(&str) -> String, extra: u8| out.push(G { text: fmt(&s.text), bi: s.bi | extra, decl: s.decl | extra });
    un(&|s| format!("Vec<{s}>"), 0);
    un(&|s| format!("::std::vec::Vec<{s}>"), 0);
    un(&|s| format!("a::b::C<{s}>"), 0);
    un(&|s| format!("&{s}"), 0);
    un(&|s| format!("*const {s}"), 0);
    un(&|s| format!("*mut {s}"), 0);
    un(&|s| format!("[{s}]"), 0);
    un(&|s| format!("[{s}; 3]"), 0);
    // a parameter name inside the length expression is not a use
    un(&|s| format!("[{s}; X]"), 0);
    un(&|s| format!("[{s}; {{ T::LEN }}]"), 0);
    un(&|s| format!("({s})"), 0);
    un(&|s| format!("({s},)"), 0);
    un(&|s| format!("Box<dyn Iterator<Item = {s}>>"), 0);
    un(&|s| format!("Box<dyn Tr<{s}> + Send>"), 0);
    un(&|s| format!("dyn Tr<{s}>"), 0);
    // the parameter in a bound that is not the first one
    un(&|s| format!("Box<dyn Send + Tr<{s}>>"), 0);
    un(&|s| format!("&(dyn 'static + Sync + AsRef<[{s}]>)"), 0);
    un(&|s| format!("(impl Send + Tr<{s}>)"), 0);
    un(&|s| format!("Box<dyn Tr<u8> + Tr2<u8, Out = {s}>>"), 0);
    un(&|s| format!("impl Tr<{s}>"), 0);
    un(&|s| format!("Foo<Item: Tr<{s}>>"), 0);
    un(&|s| format!("Foo<3, {s}>"), 0);
    // associated-const binding next to the type argument (every GenericArgument kind is walked)
    un(&|s| format!("Foo<N = 3, Item = {s}>"), 0);
    un(&|s| format!("Box<dyn Shape<{s}, SIDES = {{ X }}>>"), 0);
    un(&|s| format!("for<'z> fn(&'z {s})"), 0);
    un(&|s| format!("fn({s})"), 0);
    un(&|s| format!("fn() -> {s}"), 0);
    un(&|s| format!("Option<fn({s}) -> ()>"), 0);
    // a qualified self without a trait (`<X>::Assoc`) is a qualified self all the same
    out.push(G { text: format!("<{}>::Assoc", s.text), bi: 0, decl: s.decl });
    out.push(G { text: format!("Vec<<{}>::Assoc>", s.text), bi: 0, decl: s.decl });
    for o in others() {
        out.push(G { text: format!("<{}>::Assoc<{}>", s.text, o.text), bi: o.bi, decl: s.decl | o.decl });
        let both = |f: &dyn Fn(&str, &str) -> String, out: &mut Vec<G>| out.push(G { text: f(&s.text, &o.text), bi: s.bi | o.bi, decl: s.decl | o.decl });
        both(&|s, o| format!("Map<{s}, {o}>"), &mut out);
        both(&|s, o| format!("Map<{o}, {s}>"), &mut out);
        both(&|s, o| format!("({s}, {o})"), &mut out);
        both(&|s, o| format!("({o}, {s}, {o})"), &mut out);
        both(&|s, o| format!("Box<dyn Fn({s}) -> {o}>"), &mut out);
        both(&|s, o| format!("Box<dyn Tr<{s}> + Tr2<{o}>>"), &mut out);
        both(&|s, o| format!("(impl Tr<{s}> + Tr2<{o}>)"), &mut out);
        both(&|s, o| format!("impl FnOnce({o}) -> {s}"), &mut out);
        both(&|s, o| format!("fn({s}, {o}) -> {o}"), &mut out);
        both(&|s, o| format!("fn({o}) -> {s}"), &mut out);
        both(&|s, o| format!("{o}::Assoc<{s}>"), &mut out);
        both(&|s, o| format!("foo::{o}<{s}>"), &mut out); // `o` here is a path tail: only if it is a use...
        // qualified self: the self type counts only for declaration purposes
        out.push(G { text: format!("<{} as Tr<{}>>::Out", s.text, o.text), bi: o.bi, decl: s.decl | o.decl });
        out.push(G { text: format!("<{} as Tr<{}>>::Out", o.text, s.text), bi: s.bi, decl: s.decl | o.decl });
        out.push(G { text: format!("Vec<<{} as Tr>::Out<{}>>", s.text, o.text), bi: o.bi, decl: s.decl | o.decl });
    }
    // fix-up: `foo::{o}<{s}>` — a parameter name as a non-leading segment is not a use
    for x in out.iter_mut() {
        if x.text.starts_with("foo::") {
            let o_mask = if x.text.starts_with("foo::T<") { T } else if x.text.starts_with("foo::U<") { U } else if x.text.starts_with("foo::X<") { X } else { 0 };
            // remove o's contribution unless the spine itself uses it
            x.bi = s.bi | (x.bi & !o_mask & !s.bi);
            x.decl = s.decl | (x.decl & !o_mask & !s.decl);
        }
    }
    for l in lifetimes() {
        let lt = |f: &dyn Fn(&str, &str) -> String, out: &mut Vec<G>| out.push(G { text: f(&s.text, &l.text), bi: s.bi | l.bi, decl: s.decl | l.decl });
        lt(&|s, l| format!("&{l} {s}"), &mut out);
        lt(&|s, l| format!("&{l} mut {s}"), &mut out);
        lt(&|s, l| format!("Cow<{l}, {s}>"), &mut out);
        lt(&|s, l| format!("Box<dyn Tr<{s}> + {l}>"), &mut out);
        lt(&|s, l| format!("Box<dyn Tr<{l}, {s}>>"), &mut out);
        lt(&|s, l| format!("(impl Tr<{s}> + {l})"), &mut out);
        lt(&|s, l| format!("Box<dyn Fn({s}) -> u8 + {l}>"), &mut out);
        out.push(G { text: format!("<&{} {} as Tr>::Out", l.text, s.text), bi: 0, decl: s.decl | l.decl });
    }
    out
}

pub fn types(depth: usize) -> Vec<G> {
    let mut all = bottoms();
    let mut frontier = bottoms();
    for _ in 0..depth {
        let mut next = vec![];
        for s in &frontier {
            next.extend(extend(s));
        }
        all.extend(next.iter().cloned());
        frontier = next;
    }
    all
}

fn ident(s: &str) -> syn::Ident {
    syn::Ident::new(s, proc_macro2::Span::call_site())
}
fn type_set(mask: u8) -> IdentSet {
    let mut s = IdentSet::default();
    for (i, n) in ["T", "U", "X"].iter().enumerate() {
        if mask >> i & 1 == 1 {
            s.insert(ident(n));
        }
    }
    s
}
fn lt_set(mask: u8) -> LifetimeSet {
    let mut s = LifetimeSet::default();
    for (i, n) in ["'a", "'b", "'c"].iter().enumerate() {
        if mask >> i & 1 == 1 {
            s.insert(syn::Lifetime::new(n, proc_macro2::Span::call_site()));
        }
    }
    s
}
fn names(mask: u8) -> Vec<&'static str> {
    ["T", "U", "X", "'a", "'b"].iter().enumerate().filter(|(i, _)| mask >> i & 1 == 1).map(|(_, n)| *n).collect()
}

/// Wraps every path-typed generic argument and the type itself in `Type::Group` (what a
/// `macro_rules!` `$t:ty` fragment produces); usage must be unchanged.
fn grouped(ty: &syn::Type) -> syn::Type {
    struct V;
    impl syn::visit_mut::VisitMut for V {
        fn visit_type_mut(&mut self, t: &mut syn::Type) {
            syn::visit_mut::visit_type_mut(self, t);
            if matches!(t, syn::Type::Path(_) | syn::Type::Reference(_) | syn::Type::Tuple(_)) {
                let inner = t.clone();
                *t = syn::Type::Group(syn::TypeGroup { group_token: Default::default(), elem: Box::new(inner) });
            }
        }
    }
    let mut t = ty.clone();
    syn::visit_mut::VisitMut::visit_type_mut(&mut V, &mut t);
    t
}

pub fn check_type(gt: &G, t: &mut Tally) {
    check_type_inner(gt, false, t);
    check_type_inner(gt, true, t);
}

fn check_type_inner(gt: &G, in_groups: bool, t: &mut Tally) {
    let ty: syn::Type = match syn::parse_str(&gt.text).map(|t: syn::Type| if in_groups { grouped(&t) } else { t }) {
        Ok(t) => t,
        Err(e) => {
            t.hit("generator_unparseable");
            t.violate(Violation { key: format!("C19 machinery `{}`", gt.text), what: format!("machinery: type `{}` does not parse: {e}", gt.text), case: json!({}), detail: json!({}) });
            return;
        }
    };
    if (gt.bi != 0 || gt.decl != 0) && !in_groups {
        t.nontrivial += 1;
    }
    let gt = &G { text: if in_groups { format!("{} (every path / reference / tuple node inside an invisible group)", gt.text) } else { gt.text.clone() }, bi: gt.bi, decl: gt.decl };
    for (purpose, expect, pname) in [(Purpose::BoundImpl, gt.bi, "BoundImpl"), (Purpose::Declare, gt.decl, "Declare")] {
        for q in 0..8u8 {
            t.evaluations += 1;
            let set = type_set(q);
            let got = catch(std::panic::AssertUnwindSafe(|| ty.uses_type_params_cloned(&purpose.into(), &set)));
            let want: u8 = expect & q & 7;
            match got {
                Err(p) => t.violate(Violation { key: format!("C19 type=`{}` purpose={pname} query={:?} :: panicked: {p}", gt.text, names(q)), what: format!("uses_type_params(`{}`, {pname}, {:?}) panicked: {p}", gt.text, names(q)), case: json!({"type": gt.text, "bi": gt.bi, "decl": gt.decl}), detail: json!({}) }),
                Ok(s) => {
                    let mut m = 0u8;
                    for (i, n) in ["T", "U", "X"].iter().enumerate() {
                        if s.contains(&ident(n)) {
                            m |= 1 << i;
                        }
                    }
                    let outside = s.iter().any(|i| !set.contains(i));
                    if m != want || outside {
                        t.violate(Violation {
                            key: format!("C19 type=`{}` purpose={pname} query={:?} :: got {:?} expected {:?}", gt.text, names(q), names(m), names(want)),
                            what: format!("uses_type_params(`{}`, {pname}, {:?}) = {:?}, expected {:?}", gt.text, names(q), names(m), names(want)),
                            case: json!({"type": gt.text, "bi": gt.bi, "decl": gt.decl}),
                            detail: json!({}),
                        });
                    }
                }
            }
        }
        for q in 0..4u8 {
            t.evaluations += 1;
            let set = lt_set(q);
            let got = catch(std::panic::AssertUnwindSafe(|| ty.uses_lifetimes_cloned(&purpose.into(), &set)));
            let want: u8 = (expect >> 3) & q & 3;
            match got {
                Err(p) => t.violate(Violation { key: format!("C19 type=`{}` lifetimes purpose={pname} :: panicked: {p}", gt.text), what: format!("uses_lifetimes(`{}`) panicked: {p}", gt.text), case: json!({"type": gt.text, "bi": gt.bi, "decl": gt.decl}), detail: json!({}) }),
                Ok(s) => {
                    let mut m = 0u8;
                    for (i, n) in ["'a", "'b"].iter().enumerate() {
                        if s.contains(&syn::Lifetime::new(n, proc_macro2::Span::call_site())) {
                            m |= 1 << i;
                        }
                    }
                    if m != want || s.iter().any(|l| !set.contains(l)) {
                        t.violate(Violation {
                            key: format!("C19 type=`{}` lifetimes purpose={pname} query={q:#04b} :: got {m:#04b} expected {want:#04b}", gt.text),
                            what: format!("uses_lifetimes(`{}`, {pname}, query {q:#04b} of ['a,'b]) = {m:#04b}, expected {want:#04b}", gt.text),
                            case: json!({"type": gt.text, "bi": gt.bi, "decl": gt.decl}),
                            detail: json!({}),
                        });
                    }
                }
            }
        }
    }
}

/// The answer for a collection is the union of its members' answers.
fn collections(tys: &[G], t: &mut Tally) {
    let n = tys.len();
    let pick = |i: usize| &tys[(i * 7919 + 13) % n];
    for i in 0..n.min(4000) {
        let members = [pick(i), pick(i + 1), pick(2 * i + 5)];
        let parsed: Vec<syn::Type> = members.iter().filter_map(|m| syn::parse_str(&m.text).ok()).collect();
        if parsed.len() != 3 {
            continue;
        }
        let fields_src = format!("struct S {{ a: {}, b: {}, c: {} }}", members[0].text, members[1].text, members[2].text);
        let enum_src = format!("enum E {{ A({}), B {{ x: {}, y: {} }}, C }}", members[0].text, members[1].text, members[2].text);
        let union_src = format!("union Un {{ a: {}, b: {}, c: {} }}", members[0].text, members[1].text, members[2].text);
        let (Ok(di_s), Ok(di_e), Ok(di_u)) = (syn::parse_str::<syn::DeriveInput>(&fields_src), syn::parse_str::<syn::DeriveInput>(&enum_src), syn::parse_str::<syn::DeriveInput>(&union_src)) else { continue };
        for (purpose, sel) in [(Purpose::BoundImpl, 0), (Purpose::Declare, 1)] {
            let want: u8 = members.iter().fold(0, |a, m| a | if sel == 0 { m.bi } else { m.decl });
            let set = type_set(7);
            let lset = lt_set(3);
            let opts: darling_core::usage::Options = purpose.into();
            let mask_of = |s: &IdentSet| -> u8 { ["T", "U", "X"].iter().enumerate().fold(0, |a, (i, n)| a | if s.contains(&ident(n)) { 1 << i } else { 0 }) };
            let lmask_of = |s: &LifetimeSet| -> u8 { ["'a", "'b"].iter().enumerate().fold(0, |a, (i, n)| a | if s.contains(&syn::Lifetime::new(n, proc_macro2::Span::call_site())) { 1 << i } else { 0 }) };
            let computed = catch(std::panic::AssertUnwindSafe(|| {
            let mut got: Vec<(&str, u8, u8)> = vec![];
            got.push(("Vec<Type>", mask_of(&parsed.uses_type_params_cloned(&opts, &set)), lmask_of(&parsed.uses_lifetimes_cloned(&opts, &lset))));
            got.push(("iterator", mask_of(&parsed.iter().collect_type_params_cloned(&opts, &set)), lmask_of(&parsed.iter().collect_lifetimes_cloned(&opts, &lset))));
            got.push(("Option<Type>+rest", mask_of(&Some(parsed[0].clone()).uses_type_params_cloned(&opts, &set)) | mask_of(&parsed[1..].to_vec().uses_type_params_cloned(&opts, &set)), (want >> 3) & 3));
            got.push(("syn::Data struct", mask_of(&di_s.data.uses_type_params_cloned(&opts, &set)), lmask_of(&di_s.data.uses_lifetimes_cloned(&opts, &lset))));
            got.push(("syn::Data enum", mask_of(&di_e.data.uses_type_params_cloned(&opts, &set)), lmask_of(&di_e.data.uses_lifetimes_cloned(&opts, &lset))));
            got.push(("syn::Data union", mask_of(&di_u.data.uses_type_params_cloned(&opts, &set)), lmask_of(&di_u.data.uses_lifetimes_cloned(&opts, &lset))));
            if let syn::Data::Struct(s) = &di_s.data {
                got.push(("syn::Fields", mask_of(&s.fields.uses_type_params_cloned(&opts, &set)), lmask_of(&s.fields.uses_lifetimes_cloned(&opts, &lset))));
                let af: darling_core::ast::Fields<syn::Field> = darling_core::ast::Fields::try_from(&s.fields).unwrap();
                got.push(("ast::Fields", mask_of(&af.uses_type_params_cloned(&opts, &set)), lmask_of(&af.uses_lifetimes_cloned(&opts, &lset))));
            }
            got
            }));
            let got = match computed {
                Ok(g) => g,
                Err(p) => {
                    t.violate(Violation {
                        key: format!("C19 collection members=[{} | {} | {}] purpose={sel} :: panicked: {p}", members[0].text, members[1].text, members[2].text),
                        what: format!("usage analysis of a collection of [{}, {}, {}] panicked: {p}", members[0].text, members[1].text, members[2].text),
                        case: json!({}),
                        detail: json!({}),
                    });
                    continue;
                }
            };
            for (what, m, lm) in got {
                t.evaluations += 1;
                t.hit("collections_checked");
                if m != want & 7 || lm != (want >> 3) & 3 {
                    t.violate(Violation {
                        key: format!("C19 collection {what} members=[{} | {} | {}] purpose={sel} :: got {:?}/{lm:#04b} expected {:?}", members[0].text, members[1].text, members[2].text, names(m), names(want)),
                        what: format!("{what} of [{}, {}, {}] ({}): uses {:?} lifetimes {lm:#04b}, the union of the members' answers is {:?}", members[0].text, members[1].text, members[2].text, if sel == 0 { "BoundImpl" } else { "Declare" }, names(m), names(want)),
                        case: json!({}),
                        detail: json!({}),
                    });
                }
            }
        }
    }
}

// ------------------------------------------------------------------ public macros, where-predicates

/// Holders with 1..5 members whose usage impls come from the public `uses_type_params!` /
/// `uses_lifetimes!` macros: the answer is the union over every listed member.
pub struct H1 {
    a: syn::Type,
}
pub struct H2 {
    a: syn::Type,
    b: syn::Type,
}
pub struct H3 {
    a: syn::Type,
    b: syn::Type,
    c: syn::Type,
}
pub struct H5 {
    a: syn::Type,
    b: syn::Type,
    c: syn::Type,
    d: syn::Type,
    e: syn::Type,
}
darling::uses_type_params!(H1, a);
darling::uses_lifetimes!(H1, a);
darling::uses_type_params!(H2, a, b);
darling::uses_lifetimes!(H2, a, b);
darling::uses_type_params!(H3, a, b, c);
darling::uses_lifetimes!(H3, a, b, c);
darling::uses_type_params!(H5, a, b, c, d, e);
darling::uses_lifetimes!(H5, a, b, c, d, e);

fn holders(tys: &[G], t: &mut Tally) {
    let n = tys.len();
    let pick = |i: usize| &tys[(i * 104729 + 31) % n];
    let unit = g("u8", 0);
    for i in 0..n.min(3000) {
        // the informative member in each position, the others neutral; then all informative
        let ms = [pick(i), pick(i + 1), pick(3 * i + 2), pick(5 * i + 1), pick(7 * i + 4)];
        let parse = |x: &G| syn::parse_str::<syn::Type>(&x.text).ok();
        let Some(tv): Option<Vec<syn::Type>> = ms.iter().map(|m| parse(m)).collect() else { continue };
        let u: syn::Type = syn::parse_str(&unit.text).unwrap();
        for purpose in [Purpose::BoundImpl, Purpose::Declare] {
            let opts: darling_core::usage::Options = purpose.into();
            let set = type_set(7);
            let lset = lt_set(3);
            let pick_mask = |m: &G| if matches!(purpose, Purpose::BoundImpl) { m.bi } else { m.decl };
            let mask_of = |s: &IdentSet| -> u8 { ["T", "U", "X"].iter().enumerate().fold(0, |a, (i, n)| a | if s.contains(&ident(n)) { 1 << i } else { 0 }) };
            let lmask_of = |s: &LifetimeSet| -> u8 { ["'a", "'b"].iter().enumerate().fold(0, |a, (i, n)| a | if s.contains(&syn::Lifetime::new(n, proc_macro2::Span::call_site())) { 1 << i } else { 0 }) };
            let mut cases: Vec<(String, u8, u8, u8)> = vec![]; // (what, got types, got lifetimes, want)
            for pos in 0..5 {
                // only member `pos` is informative
                let mut v = vec![u.clone(); 5];
                v[pos] = tv[pos].clone();
                let want = pick_mask(ms[pos]);
                let r = catch(std::panic::AssertUnwindSafe(|| {
                    let mut out = vec![];
                    let h5 = H5 { a: v[0].clone(), b: v[1].clone(), c: v[2].clone(), d: v[3].clone(), e: v[4].clone() };
                    out.push((format!("5-member holder, member {pos} = `{}`", ms[pos].text), mask_of(&h5.uses_type_params_cloned(&opts, &set)), lmask_of(&h5.uses_lifetimes_cloned(&opts, &lset)), want));
                    if pos < 3 {
                        let h3 = H3 { a: v[0].clone(), b: v[1].clone(), c: v[2].clone() };
                        out.push((format!("3-member holder, member {pos} = `{}`", ms[pos].text), mask_of(&h3.uses_type_params_cloned(&opts, &set)), lmask_of(&h3.uses_lifetimes_cloned(&opts, &lset)), want));
                    }
                    if pos < 2 {
                        let h2 = H2 { a: v[0].clone(), b: v[1].clone() };
                        out.push((format!("2-member holder, member {pos} = `{}`", ms[pos].text), mask_of(&h2.uses_type_params_cloned(&opts, &set)), lmask_of(&h2.uses_lifetimes_cloned(&opts, &lset)), want));
                    }
                    if pos < 1 {
                        let h1 = H1 { a: v[0].clone() };
                        out.push((format!("1-member holder = `{}`", ms[pos].text), mask_of(&h1.uses_type_params_cloned(&opts, &set)), lmask_of(&h1.uses_lifetimes_cloned(&opts, &lset)), want));
                    }
                    out
                }));
                match r {
                    Ok(o) => cases.extend(o),
                    Err(p) => t.violate(Violation { key: format!("C19 holder member={} :: panicked: {p}", ms[pos].text), what: format!("usage analysis of a macro-generated holder panicked: {p}"), case: json!({}), detail: json!({}) }),
                }
            }
            // where-predicates: `A: Tr<B> + Tr2<C>`, lifetimes in the bounds included
            let pred_src = format!("{}: Tr<{}> + Tr2<{}>", ms[0].text, ms[1].text, ms[2].text);
            if let Ok(pred) = syn::parse_str::<syn::WherePredicate>(&pred_src) {
                let want = pick_mask(ms[0]) | pick_mask(ms[1]) | pick_mask(ms[2]);
                if let Ok(lm) = catch(std::panic::AssertUnwindSafe(|| lmask_of(&pred.uses_lifetimes_cloned(&opts, &lset)))) {
                    t.evaluations += 1;
                    t.hit("where_predicates_checked");
                    if lm != (want >> 3) & 3 {
                        t.violate(Violation {
                            key: format!("C19 predicate `{pred_src}` lifetimes :: {lm:#04b} expected {:#04b}", (want >> 3) & 3),
                            what: format!("uses_lifetimes(where-predicate `{pred_src}`) = {lm:#04b}, the union of its parts is {:#04b}", (want >> 3) & 3),
                            case: json!({}),
                            detail: json!({}),
                        });
                    }
                }
            }
            for (what, m, lm, want) in cases {
                t.evaluations += 1;
                t.hit("holders_checked");
                if m != want & 7 || lm != (want >> 3) & 3 {
                    t.violate(Violation {
                        key: format!("C19 {what} purpose={} :: got {:?}/{lm:#04b} expected {:?}/{:#04b}", if matches!(purpose, Purpose::BoundImpl) { "BoundImpl" } else { "Declare" }, names(m), names(want & 7), (want >> 3) & 3),
                        what: format!("{what}: uses {:?} lifetimes {lm:#04b}, that member alone uses {:?} / {:#04b}", names(m), names(want & 7), (want >> 3) & 3),
                        case: json!({}),
                        detail: json!({}),
                    });
                }
            }
        }
    }
}

/// `GenericsExt`: the declared type parameters are the type parameters (never lifetimes or const
/// parameters), the declared lifetimes the lifetimes, for every order of declaration; and a
/// query built from them answers like a query built by hand.
fn declared_sets(t: &mut Tally) {
    use darling::usage::{CollectTypeParams, GenericsExt, Purpose};
    let heads = [
        "", "<T>", "<'a>", "<const N: usize>", "<T, U, X>", "<'a, 'b, T: Clone + 'a, U, X = u8, const N: usize = 3>", "<'a, const N: usize, T, U, const M: usize, X>",
        "<const N: usize, const T2: bool, 'a, T>", "<T: Iterator<Item = U>, U, const U2: u8>", "<#[cfg(any())] T, #[doc = \"d\"] 'a, #[allow(unused)] const N: usize>",
    ];
    for head in heads {
        let g: syn::Generics = match syn::parse_str::<syn::DeriveInput>(&format!("struct S{head};")) {
            Ok(di) => di.generics,
            Err(_) => {
                t.hit("generator_unparseable");
                continue;
            }
        };
        t.evaluations += 1;
        t.hit("declared_sets_checked");
        let mut want_t: Vec<String> = g.params.iter().filter_map(|p| if let syn::GenericParam::Type(x) = p { Some(x.ident.to_string()) } else { None }).collect();
        let mut want_l: Vec<String> = g.params.iter().filter_map(|p| if let syn::GenericParam::Lifetime(x) = p { Some(x.lifetime.to_string()) } else { None }).collect();
        want_t.sort();
        want_l.sort();
        let got = catch(std::panic::AssertUnwindSafe(|| {
            let mut a: Vec<String> = g.declared_type_params().into_iter().map(|i| i.to_string()).collect();
            let mut b: Vec<String> = g.declared_lifetimes().into_iter().map(|l| l.to_string()).collect();
            a.sort();
            b.sort();
            (a, b)
        }));
        match got {
            Ok((a, b)) if a == want_t && b == want_l => {}
            other => t.violate(Violation {
                key: format!("C19 declared `{head}` :: {other:?}"),
                what: format!("generics `{head}`: declared_type_params / declared_lifetimes = {other:?}, expected ({want_t:?}, {want_l:?})"),
                case: json!({"head": head}),
                detail: json!({}),
            }),
        }
        // a const parameter written as a bare path in argument position is not a type parameter
        if head.contains("const N") {
            let set = g.declared_type_params();
            let fields: syn::FieldsNamed = syn::parse_str("{ a: Chunk<T, N>, b: [u8; N], c: Foo<{ N }> }").unwrap();
            let used: Vec<String> = {
                let mut v: Vec<String> = fields.named.iter().collect_type_params(&Purpose::Declare.into(), &set).into_iter().map(|i| i.to_string()).collect();
                v.sort();
                v
            };
            let want: Vec<String> = if want_t.contains(&"T".to_string()) { vec!["T".into()] } else { vec![] };
            if used != want {
                t.violate(Violation { key: format!("C19 declared-usage `{head}` :: {used:?}"), what: format!("generics `{head}`, fields `a: Chunk<T, N>, b: [u8; N], c: Foo<{{ N }}>`: type parameters used = {used:?}, expected {want:?}"), case: json!({"head": head}), detail: json!({}) });
            }
        }
    }
}

// ------------------------------------------------------------------ derive half

fn squash(s: String) -> String {
    s.chars().filter(|c| !c.is_whitespace()).collect()
}

fn check_impl(src: &str, used: u8, which: usize, t: &mut Tally) {
    let di: syn::DeriveInput = match syn::parse_str(src) {
        Ok(d) => d,
        Err(e) => {
            t.hit("generator_unparseable");
            if std::env::var("C19_DEBUG").is_ok() {
                eprintln!("unparseable receiver ({e}): {src}");
            }
            return;
        }
    };
    t.evaluations += 1;
    let (name, f) = DERIVES[which];
    let ts = match catch(std::panic::AssertUnwindSafe(|| f(&di))) {
        Ok(ts) => ts,
        Err(p) => {
            t.violate(Violation { key: format!("C19 derive={name} src=`{src}` :: panicked: {p}"), what: format!("derive({name}) on `{src}` panicked: {p}"), case: json!({"src": src, "derive": which, "used": used}), detail: json!({}) });
            return;
        }
    };
    let bad = |msg: String, t: &mut Tally| t.violate(Violation { key: format!("C19 derive={name} src=`{src}` :: {msg}"), what: format!("derive({name}) on `{src}`: {msg}"), case: json!({"src": src, "derive": which, "used": used}), detail: json!({}) });
    let file: syn::File = match syn::parse2(ts) {
        Ok(f) => f,
        Err(e) => return bad(format!("output does not parse: {e}"), t),
    };
    let Some(syn::Item::Impl(im)) = file.items.first() else { return bad("no impl emitted (declaration was expected to be accepted)".into(), t) };
    t.hit("impls_checked");
    // parameters in order, with their bounds; defaults stripped; where-clause unchanged
    let mut want_params: Vec<String> = vec![];
    for p in &di.generics.params {
        match p {
            syn::GenericParam::Lifetime(l) => want_params.push(squash(l.to_token_stream().to_string())),
            syn::GenericParam::Const(c) => {
                let mut c = c.clone();
                c.eq_token = None;
                c.default = None;
                want_params.push(squash(c.to_token_stream().to_string()));
            }
            syn::GenericParam::Type(tp) => {
                let mut bounds: Vec<String> = tp.bounds.iter().map(|b| squash(b.to_token_stream().to_string())).collect();
                let bit = match tp.ident.to_string().as_str() {
                    "T" => T,
                    "U" => U,
                    "X" => X,
                    _ => 0,
                };
                if used & bit != 0 {
                    bounds.push("::darling::FromMeta".into());
                }
                want_params.push(format!("{}:{}", tp.ident, bounds.join("+")));
            }
        }
    }
    let got_params: Vec<String> = im
        .generics
        .params
        .iter()
        .map(|p| match p {
            syn::GenericParam::Type(tp) => format!("{}:{}", tp.ident, tp.bounds.iter().map(|b| squash(b.to_token_stream().to_string())).collect::<Vec<_>>().join("+")),
            other => squash(other.to_token_stream().to_string()),
        })
        .collect();
    if got_params != want_params {
        bad(format!("impl generics {got_params:?}, expected {want_params:?}"), t);
    }
    let gw = im.generics.where_clause.as_ref().map(|w| squash(w.to_token_stream().to_string()));
    let ww = di.generics.where_clause.as_ref().map(|w| squash(w.to_token_stream().to_string()));
    if gw != ww {
        bad(format!("where-clause {gw:?}, the receiver has {ww:?}"), t);
    }
    // the self type repeats the receiver's parameters
    let self_ty = squash(im.self_ty.to_token_stream().to_string());
    let (_, tyg, _) = di.generics.split_for_impl();
    let want_self = squash(format!("{}{}", di.ident, tyg.to_token_stream()));
    if self_ty != want_self {
        bad(format!("implemented for `{self_ty}`, expected `{want_self}`"), t);
    }
}

/// The emitted impl bounds exactly the raw-identifier parameter a parsed member uses.
fn raw_param_check(src: &str, t: &mut Tally) {
    let di: syn::DeriveInput = syn::parse_str(src).unwrap();
    t.evaluations += 1;
    t.hit("raw_params_checked");
    let ts = match catch(std::panic::AssertUnwindSafe(|| darling_core::derive::from_meta(&di))) {
        Ok(ts) => ts,
        Err(p) => {
            t.violate(Violation { key: format!("C19 raw-param `{src}` :: panicked"), what: format!("derive(FromMeta) on `{src}` panicked: {p}"), case: json!({}), detail: json!({}) });
            return;
        }
    };
    let Ok(file) = syn::parse2::<syn::File>(ts) else { return };
    let Some(syn::Item::Impl(im)) = file.items.first() else { return };
    let got: Vec<String> = im.generics.type_params().map(|tp| format!("{}:{}", tp.ident, squash(tp.bounds.iter().map(|b| b.to_token_stream().to_string()).collect::<Vec<_>>().join("+")))).collect();
    let want: Vec<String> = di
        .generics
        .type_params()
        .map(|tp| {
            let used = tp.ident.to_string().starts_with("r#") || (tp.ident == "T");
            format!("{}:{}", tp.ident, if used { "::darling::FromMeta" } else { "" })
        })
        .collect();
    if got != want {
        t.violate(Violation { key: format!("C19 raw-param `{src}` :: {got:?}"), what: format!("derive(FromMeta) on `{src}`: impl generics {got:?}, expected {want:?}"), case: json!({}), detail: json!({}) });
    }
}

fn derive_half(tys: &[G], thorough: bool, t: &mut Tally) {
    let idx: Vec<usize> = (0..tys.len()).step_by(if thorough { 1 } else { 5 }).collect();
    let tl = idx
        .par_iter()
        .map(|i| {
            let mut t = Tally::default();
            derive_half_one(tys, *i, thorough, &mut t);
            t
        })
        .reduce(Tally::default, Tally::merge);
    let cur = std::mem::take(t);
    *t = cur.merge(tl);
}

fn derive_half_one(tys: &[G], i: usize, thorough: bool, t: &mut Tally) {
    // the last head declares type parameters after a const parameter (syn accepts any order)
    // the fifth and sixth heads bound parameters by other traits that merely *end* in the
    // conversion trait's name, and by darling's own trait spelled differently: the emitted bound is
    // added all the same
    let heads = [
        "<T, U, X>",
        "<'a, 'b, T: Clone + 'a, U, X = u8, const N: usize = 3>",
        "<T, U: ?Sized, X>",
        "<'a, const N: usize, T, U, const M: usize, X>",
        "<T: legacy::FromMeta, U: FromMeta + Clone, X: crate::meta::FromMeta>",
        "<T: darling::FromMeta, U: ::darling_core::FromMeta, X: FromMetaLike>",
    ];
    // raw-identifier parameters are parameters like any other
    if i % 7 == 0 {
        for src in [
            "struct R<T, r#gen> { a: T, b: Vec<r#gen> }",
            "struct R<r#type, U> { a: Option<r#type>, #[darling(skip)] b: U }",
            "enum R<r#gen, U> { A(r#gen), #[darling(skip)] B(U) }",
        ] {
            raw_param_check(src, t);
        }
    }
    let wheres = ["", " where U: Copy, T: Into<U>", " where T: legacy::FromMeta, U: other::FromMeta + Clone, X: FromMeta"];
    {
        let a = &tys[i];
        let b = &tys[(i * 31 + 7) % tys.len()];
        let c = &tys[(i * 17 + 3) % tys.len()];
        // receivers cannot contain `impl Trait` / `_` / `!` in field position for rustc, but the
        // derive functions only see syntax; keep everything syn accepts as a field type
        for (hi, head) in heads.iter().enumerate() {
            for (wi, wh) in wheres.iter().enumerate() {
                if !thorough && (hi + wi + i) % 3 != 0 {
                    continue;
                }
                // struct: skip patterns over three fields (+ one flatten member)
                for skip in 0..8u8 {
                    let sk = |bit: u8| if skip >> bit & 1 == 1 { "#[darling(skip)] " } else { "" };
                    let fl = if skip & 4 == 0 { "#[darling(flatten)] " } else { sk(2) };
                    let body = format!("{{ {}a: {}, {}b: {}, {}c: {} }}", sk(0), a.text, sk(1), b.text, fl, c.text);
                    let used = (if skip & 1 == 0 { a.bi } else { 0 }) | (if skip & 2 == 0 { b.bi } else { 0 }) | (if skip & 4 == 0 { c.bi } else { 0 });
                    let src_meta = format!("struct R{head}{wh} {body}");
                    check_impl(&src_meta, used, 0, t);
                    let src_el = format!("#[darling(attributes(a))] struct R{head}{wh} {body}");
                    for d in 1..6 {
                        if thorough || (d + i) % 5 == 0 || skip == 0 {
                            check_impl(&src_el, used, d, t);
                        }
                    }
                }
                // a parsed field stays parsed whatever other options it carries: the bound on the
                // parameters it uses is still emitted (its type's `from_none` / conversion is used)
                for opt in ["with = f", "default", "default = f", "multiple", "map = f", "and_then = f", "rename = \"z\"", "skip = false", "with = f, default"] {
                    let body = format!("{{ #[darling({opt})] a: {}, #[darling(skip)] b: {}, #[darling(skip)] c: {} }}", a.text, b.text, c.text);
                    check_impl(&format!("struct R{head}{wh} {body}"), a.bi, 0, t);
                    let d = 1 + (i + hi) % 5;
                    check_impl(&format!("#[darling(attributes(a))] struct R{head}{wh} {body}"), a.bi, d, t);
                    let src = format!("enum R{head}{wh} {{ #[darling(skip)] A({}), B {{ #[darling({opt})] x: {}, #[darling(skip)] y: {} }}, C }}", b.text, a.text, c.text);
                    check_impl(&src, a.bi, 0, t);
                }
                // enum (FromMeta): skipped variants and skipped fields inside variants
                for skip in 0..4u8 {
                    let v0 = if skip & 1 == 1 { "#[darling(skip)] " } else { "" };
                    let f1 = if skip & 2 == 2 { "#[darling(skip)] " } else { "" };
                    let src = format!("enum R{head}{wh} {{ {v0}A({}), B {{ {f1}x: {}, y: {} }}, C }}", a.text, b.text, c.text);
                    let used = (if skip & 1 == 0 { a.bi } else { 0 }) | (if skip & 2 == 0 { b.bi } else { 0 }) | c.bi;
                    check_impl(&src, used, 0, t);
                }
            }
        }
    }
}

pub fn main(args: &Args) {
    if let Some(p) = &args.replay {
        let c = crate::load_case(p);
        let mut t = Tally::default();
        if let Some(ty) = c["type"].as_str() {
            check_type(&G { text: ty.to_string(), bi: c["bi"].as_u64().unwrap() as u8, decl: c["decl"].as_u64().unwrap() as u8 }, &mut t);
        } else if let Some(src) = c["src"].as_str() {
            check_impl(src, c["used"].as_u64().unwrap() as u8, c["derive"].as_u64().unwrap() as usize, &mut t);
        }
        for v in &t.violations {
            println!("replay: {}", v.what);
        }
        println!("replay: {} violation(s)", t.violations.len());
        std::process::exit(if t.violations.is_empty() { 0 } else { 1 });
    }
    let mut rep = Report::new("C19", args.tier, "exploration");
    let thorough = args.tier == vrt::Tier::Thorough;
    let tys = types(if thorough { 2 } else { 1 });
    let extra_deep: Vec<G> = if thorough {
        // depth 3 on a reduced alphabet
        let mut fr: Vec<G> = vec![g("T", T), g("foo::T", 0), g("T::Out<U>", T | U)];
        for _ in 0..3 {
            let mut next = vec![];
            for s in &fr {
                next.extend(extend(s).into_iter().step_by(3));
            }
            fr = next;
        }
        fr
    } else {
        vec![]
    };
    // structured large types: deep single-constructor nests, wide tuples / argument lists / bound
    // lists with the parameter in the last position
    let mut extra_deep = extra_deep;
    for d in [6usize, 8, 12, 16, 33] {
        for (open, close) in [("Vec<", ">"), ("&", ""), ("[", "; 2]"), ("Option<Box<", ">>"), ("(", ",)"), ("fn(", ") -> u8"), ("*const ", "")] {
            let text = format!("{}T{}", open.repeat(d), close.repeat(d));
            extra_deep.push(g(&text, T));
            let text = format!("{}foo::T{}", open.repeat(d), close.repeat(d));
            extra_deep.push(g(&text, 0));
        }
    }
    for w in [5usize, 8, 12, 13, 17, 33] {
        let fill = vec!["u8"; w - 1].join(", ");
        extra_deep.push(g(&format!("({fill}, U)"), U));
        extra_deep.push(g(&format!("(X, {fill})"), X));
        extra_deep.push(g(&format!("fn({fill}, T) -> U"), T | U));
        extra_deep.push(g(&format!("Foo<{fill}, X>"), X));
        let bounds = vec!["Send"; w - 1].join(" + ");
        extra_deep.push(g(&format!("Box<dyn {bounds} + Tr<T>>"), T));
        extra_deep.push(g(&format!("a::b::c::d::e::f::g::H<{fill}, U>"), U));
    }
    let n_types = tys.len() + extra_deep.len();
    let tl = tys
        .par_chunks(256)
        .chain(extra_deep.par_chunks(256))
        .map(|chunk| {
            let mut t = Tally::default();
            for gt in chunk {
                check_type(gt, &mut t);
            }
            t
        })
        .reduce(Tally::default, Tally::merge);
    rep.absorb(tl);
    let mut t = Tally::default();
    collections(&tys, &mut t);
    holders(&tys, &mut t);
    declared_sets(&mut t);
    let small: Vec<G> = types(1).into_iter().filter(|g| !g.text.contains("impl ")).collect();
    derive_half(&small, thorough, &mut t);
    rep.absorb(t);
    rep.set("types", json!(n_types));
    rep.rule = format!(
        "{n_types} types built as constructor spines (depth {}) over every syn::Type form valid in field position (paths with generic args, associated-type bindings and constraints, parenthesised Fn sugar, const args; references, pointers, slices, arrays incl. parameter names in the length expression, tuples, bare fns incl. for<'z>, trait objects, impl Trait, parens, never, infer, type macros, qualified self in both roles) plus structured large types (nests to depth 33, tuples / argument / bound lists / paths of 5..33 members) with T/U/X and 'a/'b planted at known use and non-use positions (path tails, global paths, macro bodies, const expressions); for each: all 8 query sets x both purposes for type parameters, all 4 for lifetimes; collections (Vec, iterators, Option, syn::Fields, syn::Data struct/enum/union, ast::Fields) must give the union. Derive half: generic receivers (3 generics heads x 2 where-clauses) whose three fields take types from the depth-1 grammar under all 8 skip / flatten patterns, and FromMeta enums with skipped variants / fields, through all six derives: the impl repeats the parameters (defaults stripped) and the where-clause and adds `::darling::FromMeta` to exactly the declared type parameters used by parsed fields. distinct_nontrivial = types that use at least one parameter.",
        if thorough { "<= 2, <= 3 on a reduced alphabet" } else { "<= 1" }
    );
    rep.assumptions = vec!["use-sets are known by construction of each generated type".into()];
    rep.tally.samples.push(json!({"type": "<Vec<T> as Tr<U>>::Out", "BoundImpl": ["U"], "Declare": ["T", "U"]}));
    rep.require_counter("collections_checked");
    rep.require_counter("impls_checked");
    rep.require(rep.tally.counters.get("generator_unparseable").is_none(), "generator produced unparseable types");
    rep.finish()
}

#[allow(dead_code)]
pub fn debug_unparseable() {
    for g in types(2) {
        if syn::parse_str::<syn::Type>(&g.text).is_err() {
            println!("unparseable: {}", g.text);
        }
    }
}
