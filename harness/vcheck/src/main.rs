//! Entry point: `vcheck <ID> --tier quick|thorough` or `vcheck <ID> --replay <file>`.
mod c01;
mod c03b;
mod c04;
mod corpus;
mod c05;
mod c06;
mod c07;
mod c08;
mod c09;
mod c10;
mod c11;
mod c12;
mod c13;
mod c14;
mod c15;
mod c16;
mod c17;
mod c18;
mod c19;
mod c20;

use vrt::Tier;

pub struct Args {
    pub tier: Tier,
    pub replay: Option<String>,
    pub rest: Vec<String>,
}

fn main() {
    vrt::install_quiet_hook();
    let mut a = std::env::args().skip(1);
    let id = a.next().unwrap_or_else(|| usage());
    let mut args = Args { tier: Tier::Quick, replay: None, rest: vec![] };
    if let Ok(t) = std::env::var("VERIF_TIER") {
        if t == "thorough" {
            args.tier = Tier::Thorough;
        }
    }
    while let Some(x) = a.next() {
        match x.as_str() {
            "--tier" => {
                args.tier = match a.next().as_deref() {
                    Some("quick") => Tier::Quick,
                    Some("thorough") => Tier::Thorough,
                    _ => usage(),
                }
            }
            "--replay" => args.replay = Some(a.next().unwrap_or_else(|| usage())),
            _ => args.rest.push(x),
        }
    }
    match id.as_str() {
        "C01" => c01::main("C01", &args),
        "C02" => c01::main("C02", &args),
        "C03" => c01::main("C03", &args),
        "C07" => c01::main("C07", &args),
        "C08" => c08::main(&args),
        "C09" => c09::main(&args),
        "C04" => c04::main(&args),
        "C05" => c05::main(&args),
        "C11" => c11::main(&args),
        "C16" => c16::main(&args),
        "C18" => c18::main(&args),
        "C17" => c17::main(&args),
        "C20" => c20::main(&args),
        "C06" => c06::main(&args),
        "C10" => c10::main(&args),
        "C12" => c12::main(&args),
        "C13" => c13::main(&args),
        "C15" => c15::main(&args),
        "C19" => c19::main(&args),
        "c19-debug" => c19::debug_unparseable(),
        "C14" => c14::main(&args),
        "setup" => {
            // generate and build every quick-tier corpus so that the first quick check is fast
            let mut pkgs = vec![];
            for spec in corpus::all_specs(Tier::Quick) {
                pkgs.extend(corpus::generate(&spec));
            }
            pkgs.extend(c16::generate_body(Tier::Quick));
            pkgs.extend(c18::generate_shape(Tier::Quick));
            if let Err(e) = corpus::build(&pkgs) {
                eprintln!("setup: corpus build failed:\n{e}");
                std::process::exit(2);
            }
            println!("setup: built {} corpus crates", pkgs.len());
        }
        "c05-child" => c05::child(&args),
        "c05-drop-child" => c05::drop_child(&args),
        _ => usage(),
    }
}

fn usage() -> ! {
    eprintln!("usage: vcheck <ID> [--tier quick|thorough] [--replay file]");
    std::process::exit(2)
}

/// Loads the `case` member of a replay file.
pub fn load_case(path: &str) -> serde_json::Value {
    let txt = std::fs::read_to_string(path).unwrap_or_else(|e| vrt::machinery(&format!("{path}: {e}")));
    let v: serde_json::Value = serde_json::from_str(&txt).unwrap_or_else(|e| vrt::machinery(&format!("{path}: {e}")));
    v["case"].clone()
}
