//! C14 — keyed collections. Every item list up to a length bound over a small alphabet, and every
//! key-repetition pattern (restricted-growth strings) x good/bad value mask, against a reference
//! map model whose per-item value outcome is the element type's own conversion.
use crate::Args;
use darling_core::ast::NestedMeta;
use darling_core::{Error, FromMeta};
use rayon::prelude::*;
use serde_json::json;
use std::collections::{BTreeMap, HashMap};
use vrt::{catch, Report, Tally, Violation};

pub trait KeyObs: Sized {
    const NAME: &'static str;
    /// identity string of the key a path converts to, or None if the key type rejects the path
    fn ident_of(path: &syn::Path) -> Option<String>;
    fn show(&self) -> String;
}
fn joined(path: &syn::Path) -> String {
    path.segments.iter().map(|s| s.ident.to_string()).collect::<Vec<_>>().join("::")
}
impl KeyObs for String {
    const NAME: &'static str = "String";
    fn ident_of(path: &syn::Path) -> Option<String> {
        Some(joined(path))
    }
    fn show(&self) -> String {
        self.clone()
    }
}
impl KeyObs for syn::Ident {
    const NAME: &'static str = "Ident";
    fn ident_of(path: &syn::Path) -> Option<String> {
        if path.leading_colon.is_none() && path.segments.len() == 1 && path.segments[0].arguments.is_empty() {
            Some(path.segments[0].ident.to_string())
        } else {
            None
        }
    }
    fn show(&self) -> String {
        self.to_string()
    }
}
impl KeyObs for syn::Path {
    const NAME: &'static str = "Path";
    fn ident_of(path: &syn::Path) -> Option<String> {
        Some(quote::ToTokens::to_token_stream(path).to_string())
    }
    fn show(&self) -> String {
        quote::ToTokens::to_token_stream(self).to_string()
    }
}

pub trait ValObs: FromMeta {
    /// A map-valued entry: a bare word is not a meta list, so the nested map refuses it.
    const IS_MAP: bool = false;
    const NAME: &'static str;
    fn canon(&self) -> String;
    /// text after the key for a value this type accepts / rejects
    fn good(i: usize) -> String;
    fn bad(i: usize) -> String;
}
impl ValObs for bool {
    const NAME: &'static str = "bool";
    fn canon(&self) -> String {
        self.to_string()
    }
    fn good(i: usize) -> String {
        ["", " = true", " = false", " = \"true\""][i % 4].into()
    }
    fn bad(i: usize) -> String {
        [" = 5", " = \"yes\"", "(x)"][i % 3].into()
    }
}
impl ValObs for u8 {
    const NAME: &'static str = "u8";
    fn canon(&self) -> String {
        self.to_string()
    }
    fn good(i: usize) -> String {
        format!(" = {}", 10 + i)
    }
    fn bad(i: usize) -> String {
        [" = 300", " = \"x\"", "", " = -1"][i % 4].into()
    }
}
impl ValObs for String {
    const NAME: &'static str = "String";
    fn canon(&self) -> String {
        self.clone()
    }
    fn good(i: usize) -> String {
        format!(" = \"s{i}\"")
    }
    fn bad(i: usize) -> String {
        [" = 5", "", "(y = 1)"][i % 3].into()
    }
}
impl ValObs for syn::Expr {
    const NAME: &'static str = "Expr";
    fn canon(&self) -> String {
        quote::ToTokens::to_token_stream(self).to_string()
    }
    fn good(i: usize) -> String {
        [" = 1 + 2", " = a::b", " = \"x + 1\"", " = 7"][i % 4].into()
    }
    fn bad(i: usize) -> String {
        [" = \"1 +\"", "", "(z)"][i % 3].into()
    }
}
impl ValObs for HashMap<String, u8> {
    const NAME: &'static str = "HashMap<String,u8>";
    fn canon(&self) -> String {
        let mut v: Vec<_> = self.iter().map(|(k, v)| format!("{k}={v}")).collect();
        v.sort();
        v.join(",")
    }
    fn good(i: usize) -> String {
        ["(x = 1)", "()", "(x = 1, y = 2)"][i % 3].into()
    }
    fn bad(i: usize) -> String {
        ["(a = 300)", "(x = 300, \"lit\")", "(b = 1, b = 2)", " = 5", "(q = 400, a = 500)", "(x = 1, x = 2)", ""][i % 7].into()
    }
    const IS_MAP: bool = true;
}

pub trait MapObs: FromMeta {
    fn entries(&self) -> Vec<(String, String)>;
}
impl<K: KeyObs + std::hash::Hash + Eq, V: ValObs> MapObs for HashMap<K, V>
where
    HashMap<K, V>: FromMeta,
{
    fn entries(&self) -> Vec<(String, String)> {
        let mut v: Vec<_> = self.iter().map(|(k, v)| (k.show(), v.canon())).collect();
        v.sort();
        v
    }
}
impl<K: KeyObs + Ord, V: ValObs> MapObs for BTreeMap<K, V>
where
    BTreeMap<K, V>: FromMeta,
{
    fn entries(&self) -> Vec<(String, String)> {
        let mut v: Vec<_> = self.iter().map(|(k, v)| (k.show(), v.canon())).collect();
        v.sort();
        v
    }
}

#[derive(Debug, Clone, PartialEq)]
pub enum Out {
    Ok(Vec<(String, String)>),
    Err { leaves: Vec<String>, len: usize },
    Panic(String),
}

fn flat(e: Error) -> Vec<String> {
    let mut v: Vec<String> = e.flatten().into_iter().map(|x| x.to_string()).collect();
    v.sort();
    v
}

fn observe<M: MapObs>(items: &[NestedMeta]) -> Out {
    match catch(std::panic::AssertUnwindSafe(|| M::from_list(items))) {
        Ok(Ok(m)) => Out::Ok(m.entries()),
        Ok(Err(e)) => {
            let len = e.len();
            Out::Err { leaves: flat(e), len }
        }
        Err(p) => Out::Panic(p),
    }
}

/// The map converted from a whole item (`None`: the item is absent).
fn observe_meta<M: MapObs>(m: Option<&syn::Meta>) -> Out {
    let r = catch(std::panic::AssertUnwindSafe(|| match m {
        Some(m) => M::from_meta(m).map(Some),
        None => Ok(M::from_none()),
    }));
    match r {
        Ok(Ok(Some(m))) => Out::Ok(m.entries()),
        Ok(Ok(None)) => Out::Err { leaves: vec!["<no value>".into()], len: 0 },
        Ok(Err(e)) => {
            let len = e.len();
            Out::Err { leaves: flat(e), len }
        }
        Err(p) => Out::Panic(p),
    }
}

/// Every form of the whole item: the list form equals the conversion of its items, and hash and
/// ordered maps agree on every form (a bare word, a value, no item at all).
pub fn check_forms(inst: &Inst, twin: Option<&Inst>, t: &mut Tally) {
    let g0 = (inst.good)(0);
    let b0 = (inst.bad)(0);
    let forms = [
        "v".to_string(),
        "v()".into(),
        format!("v(a{g0})"),
        format!("v(a{g0}, b{g0})"),
        format!("v(a{g0}, a{g0})"),
        format!("v(a{b0})"),
        "v(\"lit\")".into(),
        "v = 5".into(),
        "v = \"s\"".into(),
        "v = \"a = 1\"".into(),
        "v = true".into(),
        "v = a".into(),
        "v = [1]".into(),
        "v = ()".into(),
    ];
    let mut all: Vec<(String, Option<syn::Meta>)> = vec![("<absent>".into(), None)];
    for f in forms {
        let di: syn::DeriveInput = syn::parse_str(&format!("#[{f}] struct S;")).expect("form");
        all.push((f, Some(di.attrs[0].meta.clone())));
    }
    for (f, m) in all {
        t.evaluations += 1;
        let got = (inst.observe_meta)(m.as_ref());
        let mut bad = |msg: String, t: &mut Tally| {
            t.violate(Violation {
                key: format!("C14 form {} `{f}` :: {msg}", inst.name),
                what: format!("{} <- `{f}`: {msg}", inst.name),
                case: json!({"inst": inst.name, "form": f}),
                detail: json!({}),
            })
        };
        if let Out::Panic(p) = &got {
            bad(format!("panicked: {p}"), t);
        }
        if let Some(syn::Meta::List(l)) = &m {
            if let Ok(items) = NestedMeta::parse_meta_list(l.tokens.clone()) {
                let direct = (inst.observe)(&items);
                if direct != got {
                    bad(format!("as a whole item {got:?}, its items alone {direct:?}"), t);
                }
                t.hit("form_list_vs_items");
            }
        } else if matches!(got, Out::Ok(_)) {
            // only a meta list is converted into a map
            bad(format!("an item that is not a list became the map {got:?}"), t);
        }
        if let Some(tw) = twin {
            let other = (tw.observe_meta)(m.as_ref());
            if other != got {
                bad(format!("{} gives {other:?}, {} gives {got:?}", tw.name, inst.name), t);
            }
            t.hit("form_hash_btree_compared");
        }
    }
    vrt::spans::reset();
}

/// Reference model.
fn model<K: KeyObs, V: ValObs>(items: &[NestedMeta]) -> Out {
    let mut leaves: Vec<String> = vec![];
    let mut seen: Vec<String> = vec![];
    let mut entries: Vec<(String, String)> = vec![];
    for it in items {
        match it {
            NestedMeta::Lit(_) => leaves.push(Error::unsupported_format("expression").to_string()),
            NestedMeta::Meta(inner) => {
                let path = inner.path();
                let val = match inner {
                    syn::Meta::Path(_) if V::IS_MAP => Err(Error::unsupported_format("word")),
                    _ => V::from_meta(inner),
                };
                // the value's own leaves, located under the key; the path is composed here as text,
                // not with `Error::at`, so that the location logic is not its own oracle
                let val_leaves = |e: Error| -> Vec<String> {
                    e.flatten()
                        .into_iter()
                        .map(|x| {
                            let s = x.to_string();
                            match s.rfind(" at ") {
                                Some(i) => format!("{} at {}/{}", &s[..i], joined(path), &s[i + 4..]),
                                None => format!("{s} at {}", joined(path)),
                            }
                        })
                        .collect()
                };
                match K::ident_of(path) {
                    None => {
                        leaves.push(Error::custom("Key must be an identifier").to_string());
                        if let Err(e) = val {
                            leaves.extend(val_leaves(e));
                        }
                    }
                    Some(id) => {
                        let dup = seen.contains(&id);
                        if dup {
                            leaves.push(Error::duplicate_field(&joined(path)).to_string());
                        }
                        match val {
                            Ok(v) => {
                                if !dup {
                                    entries.push((id.clone(), v.canon()));
                                }
                            }
                            Err(e) => leaves.extend(val_leaves(e)),
                        }
                        seen.push(id);
                    }
                }
            }
        }
    }
    if leaves.is_empty() {
        entries.sort();
        Out::Ok(entries)
    } else {
        leaves.sort();
        let len = leaves.len();
        Out::Err { leaves, len }
    }
}

pub struct Inst {
    pub name: String,
    pub map_kind: &'static str,
    pub key: &'static str,
    pub val: &'static str,
    pub observe: fn(&[NestedMeta]) -> Out,
    pub model: fn(&[NestedMeta]) -> Out,
    pub observe_meta: fn(Option<&syn::Meta>) -> Out,
    pub good: fn(usize) -> String,
    pub bad: fn(usize) -> String,
}

macro_rules! inst {
    ($v:ident, $mk:expr, $map:ident, $k:ty, $val:ty) => {
        $v.push(Inst {
            name: format!("{}<{},{}>", $mk, <$k as KeyObs>::NAME, <$val as ValObs>::NAME),
            map_kind: $mk,
            key: <$k as KeyObs>::NAME,
            val: <$val as ValObs>::NAME,
            observe: observe::<$map<$k, $val>>,
            model: model::<$k, $val>,
            observe_meta: observe_meta::<$map<$k, $val>>,
            good: <$val as ValObs>::good,
            bad: <$val as ValObs>::bad,
        })
    };
}
macro_rules! inst_vals {
    ($v:ident, $mk:expr, $map:ident, $k:ty) => {
        inst!($v, $mk, $map, $k, bool);
        inst!($v, $mk, $map, $k, u8);
        inst!($v, $mk, $map, $k, String);
        inst!($v, $mk, $map, $k, syn::Expr);
        inst!($v, $mk, $map, $k, HashMap<String, u8>);
    };
}

pub fn instances() -> Vec<Inst> {
    let mut v = vec![];
    inst_vals!(v, "HashMap", HashMap, String);
    inst_vals!(v, "HashMap", HashMap, syn::Ident);
    inst_vals!(v, "HashMap", HashMap, syn::Path);
    inst_vals!(v, "BTreeMap", BTreeMap, String);
    inst_vals!(v, "BTreeMap", BTreeMap, syn::Ident);
    v
}

fn parse_items(text: &str) -> Result<Vec<NestedMeta>, String> {
    let ts: proc_macro2::TokenStream = text.parse().map_err(|e| format!("{e}"))?;
    NestedMeta::parse_meta_list(ts).map_err(|e| e.to_string())
}

pub fn check_text(inst: &Inst, twin: Option<&Inst>, text: &str, t: &mut Tally) {
    t.evaluations += 1;
    let items = match parse_items(text) {
        Ok(i) => i,
        Err(e) => {
            // is the text a comma-separated list of literals (incl. negative numbers) and meta items?
            struct Piece;
            impl syn::parse::Parse for Piece {
                fn parse(input: syn::parse::ParseStream) -> syn::Result<Self> {
                    if input.peek(syn::Lit) || (input.peek(syn::Token![-]) && input.peek2(syn::Lit)) {
                        input.parse::<syn::Lit>().map(|_| Piece)
                    } else {
                        input.parse::<syn::Meta>().map(|_| Piece)
                    }
                }
            }
            let independent = syn::parse::Parser::parse_str(syn::punctuated::Punctuated::<Piece, syn::Token![,]>::parse_terminated, text);
            if independent.is_ok() {
                t.violate(Violation { key: format!("C14 {} `{text}` :: list rejected: {e}", inst.name), what: format!("{} <- ({text}): the item list itself is rejected (`{e}`) although every member is a literal or a meta item", inst.name), case: json!({"inst": inst.name, "text": text}), detail: json!({}) });
            } else {
                t.hit("generator_unparseable");
                t.violate(Violation { key: format!("C14 machinery unparseable `{text}`"), what: format!("machinery: `{text}` does not parse: {e}"), case: json!({"inst": inst.name, "text": text}), detail: json!({}) });
            }
            return;
        }
    };
    let got = (inst.observe)(&items);
    let want = (inst.model)(&items);
    match &want {
        Out::Ok(_) => t.hit("expect_ok"),
        Out::Err { leaves, .. } => {
            t.nontrivial += 1;
            t.hit("expect_err");
            t.class(&format!("leaves={}", leaves.len().min(9)));
        }
        _ => {}
    }
    // the same list with every `key = value` value forwarded in an invisible group
    if text.contains(" = ") {
        if let Ok(ts) = text.parse::<proc_macro2::TokenStream>() {
            if let Ok(gitems) = NestedMeta::parse_meta_list(vrt::run::group_values(ts, true)) {
                t.evaluations += 1;
                t.hit("grouped_lists");
                let ggot = (inst.observe)(&gitems);
                if ggot != want {
                    t.violate(Violation {
                        key: format!("C14 {} `{}` grouped :: {:?}", inst.name, text, ggot),
                        what: format!("{} <- ({text}) with the values inside invisible groups: {ggot:?}, expected {want:?}", inst.name),
                        case: json!({"inst": inst.name, "text": text}),
                        detail: json!({}),
                    });
                }
            }
        }
    }
    if got != want {
        let msg = match (&got, &want) {
            (Out::Panic(p), _) => format!("panicked: {p}"),
            (Out::Ok(_), Out::Err { leaves, .. }) => format!("accepted although the list has {} problems {:?}", leaves.len(), leaves),
            (Out::Err { leaves, .. }, Out::Ok(_)) => format!("rejected a well-formed list with distinct keys: {leaves:?}"),
            (Out::Ok(a), Out::Ok(b)) => format!("entries {a:?}, expected {b:?}"),
            (Out::Err { leaves: a, len: la }, Out::Err { leaves: b, .. }) => format!("error leaves {a:?} (len() = {la}), expected {b:?}"),
            _ => "differs".into(),
        };
        t.violate(Violation {
            key: format!("C14 {} `{}` :: {}", inst.name, text, msg),
            what: format!("{} <- ({}): {}", inst.name, text, msg),
            case: json!({"inst": inst.name, "text": text}),
            detail: json!({"observed": format!("{got:?}"), "expected": format!("{want:?}")}),
        });
    }
    if let Some(tw) = twin {
        let other = (tw.observe)(&items);
        if other != got {
            t.violate(Violation {
                key: format!("C14 hash-vs-btree {} `{}`", inst.name, text),
                what: format!("{} and {} disagree on ({}): {:?} vs {:?}", inst.name, tw.name, text, got, other),
                case: json!({"inst": inst.name, "text": text}),
                detail: json!({}),
            });
        }
        t.hit("hash_btree_compared");
    }
    vrt::spans::reset();
}

/// symbol -> item text
fn symbol_text(inst: &Inst, sym: usize, pos: usize) -> String {
    // each key slot rotates through spellings by position: raw identifiers (a different key from
    // the plain spelling), and paths headed by a path keyword
    const KEYS: [[&str; 3]; 4] = [["a", "r#a", "a"], ["b", "b", "r#type"], ["a::b", "crate::b", "a::r#b"], ["::a", "self", "super::a"]];
    if sym == 8 {
        return ["\"lit\"", "-1", "true", "5", "-1.5"][pos % 5].to_string();
    }
    let key = KEYS[sym / 2][pos % 3];
    let val = if sym % 2 == 0 { (inst.good)(pos) } else { (inst.bad)(pos) };
    format!("{key}{val}")
}

fn rgs(n: usize) -> Vec<Vec<usize>> {
    // all restricted growth strings of length n
    let mut out = vec![];
    fn go(cur: &mut Vec<usize>, max: usize, n: usize, out: &mut Vec<Vec<usize>>) {
        if cur.len() == n {
            out.push(cur.clone());
            return;
        }
        for v in 0..=max + 1 {
            cur.push(v);
            go(cur, max.max(v), n, out);
            cur.pop();
        }
    }
    if n == 0 {
        return vec![vec![]];
    }
    let mut cur = vec![0];
    go(&mut cur, 0, n, &mut out);
    out
}

pub fn main(args: &Args) {
    let insts = instances();
    let twin_of = |i: &Inst| -> Option<usize> {
        if i.map_kind == "HashMap" {
            insts.iter().position(|j| j.map_kind == "BTreeMap" && j.key == i.key && j.val == i.val)
        } else {
            None
        }
    };
    if let Some(p) = &args.replay {
        let c = crate::load_case(p);
        let inst = insts.iter().find(|i| i.name == c["inst"].as_str().unwrap()).unwrap();
        let mut t = Tally::default();
        if c.get("form").is_some() {
            check_forms(inst, twin_of(inst).map(|i| &insts[i]), &mut t);
        } else {
            check_text(inst, twin_of(inst).map(|i| &insts[i]), c["text"].as_str().unwrap(), &mut t);
        }
        for v in &t.violations {
            println!("replay: {}", v.what);
        }
        println!("replay: {} violation(s)", t.violations.len());
        std::process::exit(if t.violations.is_empty() { 0 } else { 1 });
    }
    let mut rep = Report::new("C14", args.tier, "model_checking");
    let maxlen = args.tier.pick(4, 6);
    let rgs_len = args.tier.pick(6, 8);
    // (1) all lists up to maxlen over 9 symbols
    let tl = insts
        .par_iter()
        .flat_map(|inst| (0..9usize).into_par_iter().map(move |first| (inst, first)))
        .map(|(inst, first)| {
            let mut t = Tally::default();
            let twin = twin_of(inst).map(|i| &insts[i]);
            if first == 0 {
                check_forms(inst, twin, &mut t);
                check_text(inst, twin, "", &mut t);
                t.states += 1;
            }
            // odometer over suffixes
            for len in 1..=maxlen {
                let mut idx = vec![0usize; len];
                idx[0] = first;
                loop {
                    let text: Vec<String> = idx.iter().enumerate().map(|(p, s)| symbol_text(inst, *s, p)).collect();
                    let trailing = if idx.iter().sum::<usize>() % 5 == 0 { "," } else { "" };
                    check_text(inst, twin, &format!("{}{}", text.join(", "), trailing), &mut t);
                    t.states += 1;
                    t.transitions += 1;
                    t.traces += 1;
                    // increment positions 1..
                    let mut k = len;
                    loop {
                        if k == 1 {
                            break;
                        }
                        k -= 1;
                        idx[k] += 1;
                        if idx[k] < 9 {
                            break;
                        }
                        idx[k] = 0;
                    }
                    if k == 1 && (len == 1 || idx[1..].iter().all(|x| *x == 0)) {
                        break;
                    }
                }
            }
            t
        })
        .reduce(Tally::default, Tally::merge);
    rep.absorb(tl);
    // (2) repetition patterns x good/bad masks, simple keys
    let mut patterns = vec![];
    for n in 1..=rgs_len {
        patterns.extend(rgs(n));
    }
    // structured long lists
    // (also around the sizes at which buffers, small counters and hash tables change regime)
    for n in (9..=12usize).chain([15, 16, 17, 31, 32, 33, 63, 64, 65, 100]) {
        patterns.push(vec![0; n]);
        patterns.push((0..n).collect());
        patterns.push((0..n).map(|i| i / 2).collect());
    }
    // distinct keys followed by a repeat of key j: every j for lists of 9..20, selected j beyond
    for n in 9..=20usize {
        for j in 0..n - 1 {
            let mut p: Vec<usize> = (0..n - 1).collect();
            p.push(j);
            patterns.push(p);
        }
    }
    for n in [33usize, 65] {
        for j in [0usize, 7, 8, 15, 16, 31, n - 2] {
            if j < n - 1 {
                let mut p: Vec<usize> = (0..n - 1).collect();
                p.push(j);
                patterns.push(p);
                // ... and the repeat in the middle
                let mut q: Vec<usize> = (0..n - 1).collect();
                q.insert(n / 2, j);
                patterns.push(q);
            }
        }
    }
    let n_patterns = patterns.len();
    let tl = insts
        .par_iter()
        .flat_map(|inst| patterns.par_iter().map(move |p| (inst, p)))
        .map(|(inst, pat)| {
            let mut t = Tally::default();
            let twin = twin_of(inst).map(|i| &insts[i]);
            let n = pat.len();
            let masks: Vec<u128> = if n <= 8 {
                (0..(1u128 << n)).collect()
            } else if pat.iter().collect::<std::collections::BTreeSet<_>>().len() + 1 == n && n > 12 {
                // distinct-plus-one-repeat patterns: all good, first bad, last bad
                vec![0, 1, 1u128 << (n - 1)]
            } else {
                (0..n as u32).map(|i| 1u128 << i).chain([0]).collect()
            };
            for mask in masks {
                let text: Vec<String> = pat
                    .iter()
                    .enumerate()
                    .map(|(i, k)| format!("k{}{}", k, if mask >> i & 1 == 1 { (inst.bad)(i) } else { (inst.good)(i) }))
                    .collect();
                check_text(inst, twin, &text.join(", "), &mut t);
                t.states += 1;
                t.transitions += 1;
                t.traces += 1;
            }
            t
        })
        .reduce(Tally::default, Tally::merge);
    rep.absorb(tl);
    rep.set("instantiations", json!(insts.iter().map(|i| i.name.clone()).collect::<Vec<_>>()));
    rep.set("max_list_len", json!(maxlen));
    rep.set("repetition_patterns", json!(n_patterns));
    rep.rule = format!(
        "25 map instantiations (Hash/BTree x String/Ident/Path keys x bool,u8,String,Expr,nested map values). (1) every item list of length 0..{maxlen} over 9 symbols (four key slots - a / r#a, b / r#type, a::b / crate::b / a::r#b, ::a / self / super::a, spellings rotating with position - each with a good or bad value, and a literal item rotating through \"lit\", -1, true, 5, -1.5; value spellings rotate with position); (2) every key-repetition pattern (restricted-growth strings) up to length {rgs_len} x every good/bad mask, plus structured lists of length 9..12, 15..17, 31..33, 63..65 and 100 (all keys equal / all distinct / pairs; one bad value at each position). Reference model: literal -> 1 leaf; unconvertible key -> 1 leaf (+ the value's own leaves); repeated key -> 1 duplicate leaf (+ value leaves); value leaves = V::from_meta(item) located under the key; Ok iff no leaf, then entries equal; HashMap and BTreeMap twins compared on every input. (3) every form of the whole item (absent, bare word, `()`, five lists, six `= value` forms) per instantiation: the list form equals the conversion of its items, nothing but a list becomes a map, twins agree; a map-valued entry written as a bare word is refused. states = lists explored; non-trivial = lists the model rejects."
    );
    rep.assumptions = vec!["the element type's own conversion (V::from_meta) defines the per-item value outcome".into(), "String key conversion = path segments joined by `::`".into()];
    rep.tally.samples.push(json!({"inst": "HashMap<String,u8>", "list": "a = 300, b = 11, a = 12, \"lit\"", "expect_leaves": ["value error at a", "Duplicate field `a`", "Unexpected meta-item format `expression`"]}));
    rep.require_counter("expect_ok");
    rep.require_counter("expect_err");
    rep.require_counter("hash_btree_compared");
    rep.require(rep.tally.outcome_classes.len() >= 5, "too few distinct leaf counts");
    rep.finish()
}
