//! Enumerations of programs (receiver declarations) and their per-program item alphabets.
use crate::input::Item;
use crate::ir::*;

pub const N_KINDS: usize = 15;
pub const KIND_NAMES: [&str; N_KINDS] =
    ["required", "option", "default_fn", "multiple", "skip", "renamed", "with_map", "nested", "enum", "flatten", "map", "bool", "and_then", "skip_false", "with_option"];
const SLOT_NAMES: [&str; 3] = ["alpha_beta", "gamma_x", "delta_y9"];

fn child_struct(pool: &mut Vec<Decl>, flat: bool) -> usize {
    let fields = if flat {
        vec![Field::new("p_q", Ty::U32), Field::new("r", Ty::OptU32)]
    } else {
        vec![Field::new("x", Ty::U32), Field::new("y", Ty::OptU32)]
    };
    pool.push(Decl::Struct(StructDecl::new(Trait::FromMeta, fields)));
    pool.len() - 1
}

fn child_enum(pool: &mut Vec<Decl>, with_word: bool) -> usize {
    let variants = vec![
        Variant { rust: "Uno".into(), rename: None, skip: false, word: if with_word { Some(true) } else { None }, body: VBody::Unit },
        Variant { rust: "Duo".into(), rename: None, skip: false, word: None, body: VBody::Newtype(Ty::U32) },
        Variant { rust: "TresX".into(), rename: None, skip: false, word: None, body: VBody::Struct(vec![Field::new("x", Ty::U32)]) },
        Variant { rust: "Skipped".into(), rename: None, skip: true, word: None, body: VBody::Unit },
    ];
    pool.push(Decl::Enum(EnumDecl { rule: None, from_word: false, from_none: false, allow_unknown: None, variants }));
    pool.len() - 1
}

pub fn kind_field(kind: usize, slot: usize, pool: &mut Vec<Decl>) -> Field {
    let name = SLOT_NAMES[slot];
    let mut f = Field::new(name, Ty::U32);
    match kind {
        0 => {}
        1 => f.ty = Ty::OptU32,
        2 => f.dflt = Dflt::Fn,
        3 => f.multiple = true,
        4 => f.skip = true,
        5 => f.rename = Some(format!("rn{slot}")),
        6 => {
            f.with = if slot % 2 == 0 { With::Path } else { With::Closure };
            f.tr = Tr::Map;
        }
        7 => f.ty = Ty::Struct(child_struct(pool, false)),
        8 => f.ty = Ty::Enum(child_enum(pool, slot % 2 == 1)),
        9 => {
            f.ty = if slot % 2 == 0 { Ty::Struct(child_struct(pool, true)) } else { Ty::BoxStruct(child_struct(pool, true)) };
            f.flatten = true;
        }
        10 => f.ty = Ty::MapU32,
        11 => f.ty = Ty::Bool,
        12 => f.tr = Tr::AndThen,
        13 => f.skip_false = true,
        14 => {
            f.ty = Ty::OptU32;
            f.with = if slot % 2 == 0 { With::Closure } else { With::Path };
        }
        _ => panic!("kind"),
    }
    f
}

/// Container configurations for the small receivers.
pub fn apply_config(s: &mut StructDecl, cfg: usize) {
    match cfg {
        0 => {}
        1 => {
            s.rule = Rule::Camel;
            s.allow_unknown = Some(true);
        }
        2 => s.dflt = Dflt::Trait,
        3 => {
            s.dflt = Dflt::Fn;
            s.tr = Tr::Map;
        }
        4 => {
            s.rule = Rule::Screaming;
            s.tr = Tr::AndThen;
        }
        5 => {
            if s.tr8 == Trait::FromMeta {
                s.from_word = true;
                s.from_none = true;
            } else if s.tr8 != Trait::FromAttributes {
                s.from_ident = true;
            }
            s.rule = Rule::Pascal;
        }
        6 => {
            s.rule = Rule::Kebab;
            s.allow_unknown = Some(false);
        }
        _ => panic!("cfg"),
    }
}

pub fn small_program(tr8: Trait, kinds: &[usize], cfg: usize) -> Option<Program> {
    if kinds.iter().filter(|k| **k == 9).count() > 1 {
        return None;
    }
    let mut pool: Vec<Decl> = vec![Decl::Struct(StructDecl::new(tr8, vec![]))];
    let fields: Vec<Field> = kinds.iter().enumerate().map(|(slot, k)| kind_field(*k, slot, &mut pool)).collect();
    let mut s = StructDecl::new(tr8, fields);
    apply_config(&mut s, cfg);
    pool[0] = Decl::Struct(s);
    let fam = format!("small {} [{}] cfg{}", tr8.name(), kinds.iter().map(|k| KIND_NAMES[*k]).collect::<Vec<_>>().join(","), cfg);
    Some(Program { decls: pool, root: 0, family: fam })
}

/// Deep family: nesting to depth 3, multiple of nested structs, flatten chains.
pub fn deep_programs() -> Vec<Program> {
    let mut out = vec![];
    // depth 3: root { a: Mid } ; Mid { m: u32, inner: Leaf } ; Leaf { x: u32, y: Option<u32> }
    {
        let leaf = StructDecl::new(Trait::FromMeta, vec![Field::new("x", Ty::U32), Field::new("y", Ty::OptU32)]);
        let mid = StructDecl::new(Trait::FromMeta, vec![Field::new("m", Ty::U32), Field::new("inner", Ty::Struct(2))]);
        let root = StructDecl::new(Trait::FromMeta, vec![Field::new("alpha_beta", Ty::Struct(1)), Field::new("gamma_x", Ty::OptU32)]);
        out.push(Program { decls: vec![Decl::Struct(root), Decl::Struct(mid), Decl::Struct(leaf)], root: 0, family: "deep nest3".into() });
    }
    // multiple of nested structs
    {
        let leaf = StructDecl::new(Trait::FromMeta, vec![Field::new("x", Ty::U32), Field::new("y", Ty::OptU32)]);
        let mut f = Field::new("alpha_beta", Ty::Struct(1));
        f.multiple = true;
        let root = StructDecl::new(Trait::FromMeta, vec![f, Field::new("gamma_x", Ty::U32)]);
        out.push(Program { decls: vec![Decl::Struct(root), Decl::Struct(leaf)], root: 0, family: "deep multiple-nested".into() });
    }
    // flatten chain of length 2: root { own: u32, #[flatten] a: Mid } ; Mid { m: u32, #[flatten] b: Leaf } ; Leaf { p_q, r }
    {
        let leaf = StructDecl::new(Trait::FromMeta, vec![Field::new("p_q", Ty::U32), Field::new("r", Ty::OptU32)]);
        let mut fb = Field::new("b", Ty::Struct(2));
        fb.flatten = true;
        let mid = StructDecl::new(Trait::FromMeta, vec![Field::new("m", Ty::OptU32), fb]);
        let mut fa = Field::new("alpha_beta", Ty::Struct(1));
        fa.flatten = true;
        let root = StructDecl::new(Trait::FromMeta, vec![Field::new("gamma_x", Ty::U32), fa]);
        out.push(Program { decls: vec![Decl::Struct(root), Decl::Struct(mid), Decl::Struct(leaf)], root: 0, family: "deep flatten-chain".into() });
    }
    // the same name at adjacent path levels: x(x(x = ..)) and a map key equal to the member name
    {
        let leaf = StructDecl::new(Trait::FromMeta, vec![Field::new("alpha_beta", Ty::U32), Field::new("y", Ty::OptU32)]);
        let mid = StructDecl::new(Trait::FromMeta, vec![Field::new("alpha_beta", Ty::Struct(2)), Field::new("m", Ty::OptU32)]);
        let root = StructDecl::new(Trait::FromMeta, vec![Field::new("alpha_beta", Ty::Struct(1)), Field::new("gamma_x", Ty::OptU32)]);
        out.push(Program { decls: vec![Decl::Struct(root), Decl::Struct(mid), Decl::Struct(leaf)], root: 0, family: "deep same-name".into() });
    }
    // members whose attribute name is a path keyword (legal as a meta path: `crate = ..`)
    {
        let mk = |rust: &str, name: &str, ty: Ty| {
            let mut f = Field::new(rust, ty);
            f.rename = Some(name.into());
            f
        };
        let child = StructDecl::new(Trait::FromMeta, vec![mk("s", "self", Ty::U32), mk("u", "Self", Ty::OptU32)]);
        let root = StructDecl::new(Trait::FromMeta, vec![mk("c", "crate", Ty::U32), mk("p", "super", Ty::OptU32), Field::new("inner", Ty::Struct(1)), Field::new("plain", Ty::OptU32)]);
        out.push(Program { decls: vec![Decl::Struct(root), Decl::Struct(child)], root: 0, family: "deep keyword-names".into() });
    }
    // members that are raw identifiers: the attribute name is the identifier as written (`r#type`)
    {
        let child = StructDecl::new(Trait::FromMeta, vec![Field::new("r#mod", Ty::U32), Field::new("r#ref", Ty::OptU32)]);
        let root = StructDecl::new(Trait::FromMeta, vec![Field::new("r#type", Ty::U32), Field::new("r#fn", Ty::OptU32), Field::new("inner", Ty::Struct(1)), Field::new("kind", Ty::OptU32)]);
        out.push(Program { decls: vec![Decl::Struct(root), Decl::Struct(child)], root: 0, family: "deep raw-names".into() });
    }
    // many members: 9 and 17 (required / optional / multiple in rotation)
    for n in [9usize, 17] {
        let fields: Vec<Field> = (0..n)
            .map(|i| {
                let mut f = Field::new(&format!("f{}_x", (b'a' + i as u8) as char), if i % 3 == 1 { Ty::OptU32 } else { Ty::U32 });
                f.multiple = i % 3 == 2;
                f
            })
            .collect();
        out.push(Program { decls: vec![Decl::Struct(StructDecl::new(Trait::FromMeta, fields))], root: 0, family: format!("deep many-members {n}") });
    }
    // irregular member names under every case rule: leading underscore, digits next to the
    // separators, doubled underscore
    for rule in Rule::ALL {
        let mut root = StructDecl::new(Trait::FromMeta, vec![Field::new("_lead_x", Ty::U32), Field::new("x1_y2", Ty::OptU32), Field::new("a__b", Ty::OptU32)]);
        root.rule = rule;
        out.push(Program { decls: vec![Decl::Struct(root)], root: 0, family: format!("deep odd-names {rule:?}") });
    }
    // flatten into a map, next to a nested struct with an enum inside
    {
        let mut fm = Field::new("alpha_beta", Ty::MapU32);
        fm.flatten = true;
        let root = StructDecl::new(Trait::FromMeta, vec![Field::new("gamma_x", Ty::U32), fm]);
        out.push(Program { decls: vec![Decl::Struct(root)], root: 0, family: "deep flatten-map".into() });
    }
    out
}

pub fn small_corpus(thorough: bool) -> Vec<Program> {
    let mut out = vec![];
    let cfgs: Vec<usize> = if thorough { vec![0, 1, 2, 3, 4, 5, 6] } else { vec![0, 1, 3] };
    for cfg in &cfgs {
        for a in 0..N_KINDS {
            out.extend(small_program(Trait::FromMeta, &[a], *cfg));
            for b in 0..N_KINDS {
                if thorough || *cfg == 0 || (a + b) % 3 == 0 {
                    out.extend(small_program(Trait::FromMeta, &[a, b], *cfg));
                }
            }
        }
    }
    if thorough {
        for cfg in [0usize, 1, 3] {
            for a in 0..N_KINDS {
                for b in a..N_KINDS {
                    for c in b..N_KINDS {
                        out.extend(small_program(Trait::FromMeta, &[a, b, c], cfg));
                    }
                }
            }
        }
    }
    // element-level traits
    for t in [Trait::FromDeriveInput, Trait::FromField, Trait::FromVariant, Trait::FromTypeParam, Trait::FromAttributes] {
        let cfgs: Vec<usize> = if thorough { vec![0, 1, 2, 3, 5] } else { vec![0, 5] };
        for cfg in cfgs {
            for a in 0..N_KINDS {
                out.extend(small_program(t, &[a], cfg));
                if thorough {
                    for b in 0..N_KINDS {
                        out.extend(small_program(t, &[a, b], cfg));
                    }
                } else {
                    out.extend(small_program(t, &[a, (a + 7) % N_KINDS], cfg));
                }
            }
        }
    }
    out.extend(deep_programs());
    out
}

// ------------------------------------------------------------------ alphabets

fn nested_menu(name: &str, child: &StructDecl) -> Vec<Item> {
    // child has a required first field and an optional second one
    let a = child.eff_name(&child.fields[0]);
    let b = child.eff_name(&child.fields[1]);
    vec![
        Item::list(name, vec![Item::nv(&a, "1")]),
        Item::list(name, vec![Item::nv(&b, "3"), Item::nv(&a, "\"2\"")]),
        Item::list(name, vec![]),
        Item::list(name, vec![Item::nv(&a, "1"), Item::nv("zz", "1")]),
        Item::list(name, vec![Item::nv(&a, "\"bad\""), Item::lit("5"), Item::nv(&b, "4"), Item::nv(&b, "5")]),
        Item::nv(name, "5"),
    ]
}

/// Items a field of this program level can be addressed with (valid and invalid alike).
pub fn field_items(prog: &Program, s: &StructDecl, f: &Field) -> Vec<Item> {
    let name = s.eff_name(f);
    if name.contains('-') {
        return vec![]; // not expressible as a meta path
    }
    if f.skip {
        return vec![Item::nv(&name, "5")];
    }
    if f.flatten {
        // the child's items appear at this level; also the flatten field's own name
        let mut v = vec![Item::nv(&name, "1")];
        match &f.ty {
            Ty::Struct(c) | Ty::BoxStruct(c) => {
                let child = prog.st(*c);
                for cf in &child.fields {
                    if cf.flatten {
                        v.extend(field_items(prog, child, cf).into_iter().take(3));
                    } else {
                        let cn = child.eff_name(cf);
                        v.push(Item::nv(&cn, "1"));
                        if cf.ty == Ty::U32 {
                            v.push(Item::nv(&cn, "\"bad\""));
                        }
                    }
                }
            }
            Ty::MapU32 => {
                v.push(Item::nv("k", "2"));
                v.push(Item::nv("k", "\"bad\""));
                v.push(Item::word("j"));
            }
            _ => {}
        }
        return v;
    }
    match &f.ty {
        Ty::U32 | Ty::OptU32 => {
            let mut v = vec![Item::nv(&name, "5"), Item::nv(&name, "\"7\""), Item::nv(&name, "\"x\""), Item::word(&name), Item::nv(&name, "-1")];
            if f.tr == Tr::AndThen {
                v[1] = Item::nv(&name, "13");
            }
            if f.with != With::None {
                v[1] = Item::nv(&name, "0x10");
            }
            v
        }
        Ty::Bool => vec![Item::word(&name), Item::nv(&name, "false"), Item::nv(&name, "\"true\""), Item::nv(&name, "5")],
        Ty::Str => vec![Item::nv(&name, "\"s\""), Item::nv(&name, "5"), Item::word(&name)],
        Ty::Flag => vec![Item::word(&name), Item::nv(&name, "true"), Item::list(&name, vec![])],
        Ty::Struct(c) | Ty::BoxStruct(c) => {
            let child = prog.st(*c);
            if child.fields.len() >= 2 && !child.fields.iter().any(|cf| matches!(cf.ty, Ty::Struct(_))) {
                nested_menu(&name, child)
            } else {
                // deeper nesting: a fixed menu built from the grandchild's menu
                let mut v = vec![Item::list(&name, vec![]), Item::nv(&name, "5")];
                let m = child.eff_name(&child.fields[0]);
                for cf in &child.fields {
                    if let Ty::Struct(g) = &cf.ty {
                        let gn = child.eff_name(cf);
                        for it in nested_menu(&gn, prog.st(*g)).into_iter().take(5) {
                            v.push(Item::list(&name, vec![it.clone()]));
                            v.push(Item::list(&name, vec![Item::nv(&m, "1"), it.clone()]));
                            v.push(Item::list(&name, vec![it, Item::nv("zz", "0")]));
                        }
                    }
                }
                v
            }
        }
        Ty::Enum(e) => {
            let en = prog.en(*e);
            let vn: Vec<String> = en.variants.iter().map(|v| en.eff_name(v)).collect();
            vec![
                Item::nv(&name, &format!("\"{}\"", vn[0])),
                Item::list(&name, vec![Item::nv(&vn[1], "4")]),
                Item::list(&name, vec![Item::list(&vn[2], vec![Item::nv("x", "1")])]),
                Item::nv(&name, &format!("\"{}\"", vn[3])),
                Item::list(&name, vec![Item::word(&vn[0]), Item::nv(&vn[1], "1")]),
                Item::list(&name, vec![Item::list(&vn[2], vec![Item::nv("zz", "1")])]),
                Item::list(&name, vec![]),
                Item::list(&name, vec![Item::nv(&vn[1], "\"x\"")]),
                Item::word(&name),
                Item::list(&name, vec![Item::nv(&vn[0], "3")]),
            ]
        }
        Ty::MapU32 => vec![
            Item::list(&name, vec![Item::nv("k", "1")]),
            Item::list(&name, vec![Item::nv("k", "1"), Item::nv("j", "2")]),
            Item::list(&name, vec![Item::nv("k", "1"), Item::nv("k", "2")]),
            Item::list(&name, vec![Item::nv("k", "\"x\""), Item::lit("\"lit\""), Item::nv("k", "3")]),
            Item::list(&name, vec![Item::nv("k", "1"), Item::lit("-2.5"), Item::nv("j", "3")]),
            Item::word(&name),
        ],
    }
}

pub fn level_wide_items() -> Vec<Item> {
    // a negative number is one literal item although it is two tokens
    vec![Item::nv("zz", "1"), Item::lit("\"lit\""), Item::list("zz", vec![Item::word("a")]), Item::lit("-5")]
}

pub fn root_alphabet(prog: &Program) -> Vec<Item> {
    let s = prog.st(prog.root);
    let mut v = vec![];
    for f in &s.fields {
        v.extend(field_items(prog, s, f));
    }
    v.extend(level_wide_items());
    // a list holding one literal is a list, not that literal; a name differing from a member's
    // only in case is an unknown name (both for the first plain scalar member)
    if let Some(f) = s.fields.iter().find(|f| matches!(f.ty, Ty::U32 | Ty::OptU32 | Ty::Str) && !f.skip && !f.flatten && !f.multiple && f.with == With::None) {
        let name = s.eff_name(f);
        if !name.contains('-') && !name.starts_with("r#") {
            v.push(Item::list(&name, vec![Item::lit(if f.ty == Ty::Str { "\"s\"" } else { "5" })]));
            let other: String = if name.chars().any(|c| c.is_ascii_lowercase()) { name.to_ascii_uppercase() } else { name.to_ascii_lowercase() };
            let taken = |n: &str| prog.decls.iter().any(|d| matches!(d, Decl::Struct(x) if x.fields.iter().any(|g| x.eff_name(g) == n)));
            if other != name && !taken(&other) && s.allow_unknown != Some(true) {
                v.push(Item::nv(&other, if f.ty == Ty::Str { "\"s\"" } else { "5" }));
            }
        }
    }
    v
}

// ------------------------------------------------------------------ enum corpus (C09)

pub const N_VKINDS: usize = 12;
pub const VKIND_NAMES: [&str; N_VKINDS] = ["unit", "unit_renamed", "unit_skipped", "unit_word", "newtype_u32", "newtype_opt", "newtype_struct", "struct", "struct_skipped", "unit_word_false", "struct_flatten", "unit_skip_word"];
const VSLOT_NAMES: [&str; 3] = ["AlphaBeta", "Gamma", "DeltaX9"];

fn kind_variant(kind: usize, slot: usize, pool: &mut Vec<Decl>) -> Variant {
    let mut v = Variant { rust: VSLOT_NAMES[slot].into(), rename: None, skip: false, word: None, body: VBody::Unit };
    match kind {
        0 => {}
        1 => v.rename = Some(format!("rn{slot}")),
        2 => v.skip = true,
        3 => v.word = Some(true),
        4 => v.body = VBody::Newtype(Ty::U32),
        5 => v.body = VBody::Newtype(Ty::OptU32),
        6 => v.body = VBody::Newtype(Ty::Struct(child_struct(pool, false))),
        7 => v.body = VBody::Struct(vec![Field::new("x", Ty::U32)]),
        8 => {
            let mut y = Field::new("y_z", Ty::U32);
            y.dflt = Dflt::Fn;
            v.body = VBody::Struct(vec![Field::new("x", Ty::U32), y]);
            v.skip = true;
        }
        9 => v.word = Some(false),
        10 => {
            let mut rest = Field::new("rest", Ty::Struct(child_struct(pool, true)));
            rest.flatten = true;
            v.body = VBody::Struct(vec![Field::new("x", Ty::U32), rest]);
        }
        11 => {
            v.skip = true;
            v.word = Some(true);
        }
        _ => panic!("vkind"),
    }
    v
}

/// Enum container configurations: (rule, from_word, from_none, allow_unknown)
pub fn enum_configs(thorough: bool) -> Vec<(Option<Rule>, bool, bool, Option<bool>)> {
    let mut v = vec![(None, false, false, None), (Some(Rule::Camel), false, false, None), (None, true, true, None), (Some(Rule::Screaming), false, false, Some(true)), (None, false, false, Some(false))];
    if thorough {
        for r in [Rule::Lower, Rule::Pascal, Rule::Snake, Rule::Kebab] {
            v.push((Some(r), false, false, None));
        }
        v.push((None, true, false, None));
        v.push((None, false, true, Some(false)));
        v.push((Some(Rule::Kebab), false, true, Some(true)));
    }
    v
}

pub fn enum_program(kinds: &[usize], cfg: (Option<Rule>, bool, bool, Option<bool>)) -> Option<Program> {
    let mut pool: Vec<Decl> = vec![Decl::Enum(EnumDecl { rule: None, from_word: false, from_none: false, allow_unknown: None, variants: vec![] })];
    let variants: Vec<Variant> = kinds.iter().enumerate().map(|(slot, k)| kind_variant(*k, slot, &mut pool)).collect();
    let words = variants.iter().filter(|v| v.word.is_some()).count();
    if words > 1 || (words > 0 && cfg.1) {
        return None; // rejected at derive time (C10's business)
    }
    let has_unit = variants.iter().any(|v| !v.skip && v.body == VBody::Unit);
    if (cfg.1 || cfg.2) && !has_unit {
        return None; // the generated from_word / from_none functions return a unit variant
    }
    let e = EnumDecl { rule: cfg.0, from_word: cfg.1, from_none: cfg.2, allow_unknown: cfg.3, variants };
    pool[0] = Decl::Enum(e);
    let fam = format!("enum [{}] cfg({:?},{},{},{:?})", kinds.iter().map(|k| VKIND_NAMES[*k]).collect::<Vec<_>>().join(","), cfg.0, cfg.1, cfg.2, cfg.3);
    Some(Program { decls: pool, root: 0, family: fam })
}

pub fn enum_corpus(thorough: bool) -> Vec<Program> {
    let mut out = vec![];
    for cfg in enum_configs(thorough) {
        for a in 0..N_VKINDS {
            out.extend(enum_program(&[a], cfg));
            for b in 0..N_VKINDS {
                out.extend(enum_program(&[a, b], cfg));
            }
        }
    }
    if thorough {
        // three variants: every unordered selection of kinds, under two configurations
        for cfg in [(None, false, false, None), (Some(Rule::Camel), false, true, Some(true))] {
            for a in 0..N_VKINDS {
                for b in a..N_VKINDS {
                    for c in b..N_VKINDS {
                        out.extend(enum_program(&[a, b, c], cfg));
                    }
                }
            }
        }
    } else {
        // a slice of the three-variant enums for the quick tier
        for a in 0..N_VKINDS {
            out.extend(enum_program(&[a, (a + 4) % N_VKINDS, (a + 7) % N_VKINDS], (None, false, false, None)));
        }
    }
    // many variants: 9 and 17, styles in rotation (lookup tables, match arms and suggestion lists
    // beyond the sizes of the exhaustive part)
    for n in [9usize, 17] {
        let variants: Vec<Variant> = (0..n)
            .map(|i| Variant {
                rust: format!("Var{}X", (b'A' + i as u8) as char),
                rename: None,
                skip: i % 7 == 6,
                word: None,
                body: match i % 3 {
                    0 => VBody::Unit,
                    1 => VBody::Newtype(Ty::U32),
                    _ => VBody::Struct(vec![Field::new("x", Ty::U32), Field::new("y", Ty::OptU32)]),
                },
            })
            .collect();
        out.push(Program { decls: vec![Decl::Enum(EnumDecl { rule: None, from_word: false, from_none: false, allow_unknown: None, variants })], root: 0, family: format!("enum many-variants {n}") });
    }
    // a skipped variant does not occupy its name: a later variant with the same effective name
    // (by rename, or by the case rule) is the one selected
    for rule in [None, Some(Rule::Snake)] {
        let variants = vec![
            Variant { rust: "Legacy".into(), rename: if rule.is_none() { Some("legacy".into()) } else { None }, skip: true, word: None, body: VBody::Unit },
            Variant { rust: "Compat".into(), rename: Some("legacy".into()), skip: false, word: None, body: VBody::Unit },
            Variant { rust: "OldCustom".into(), rename: Some("custom".into()), skip: true, word: None, body: VBody::Newtype(Ty::U32) },
            Variant { rust: "Tuned".into(), rename: Some("custom".into()), skip: false, word: None, body: VBody::Struct(vec![Field::new("gain", Ty::U32), Field::new("q", Ty::OptU32)]) },
            Variant { rust: "Fast".into(), rename: None, skip: false, word: None, body: VBody::Unit },
            Variant { rust: "Gone".into(), rename: Some("num".into()), skip: true, word: None, body: VBody::Struct(vec![Field::new("x", Ty::U32)]) },
            Variant { rust: "Num".into(), rename: Some("num".into()), skip: false, word: None, body: VBody::Newtype(Ty::U32) },
        ];
        out.push(Program {
            decls: vec![Decl::Enum(EnumDecl { rule, from_word: false, from_none: false, allow_unknown: None, variants })],
            root: 0,
            family: format!("enum skipped-name-reused cfg({rule:?})"),
        });
    }
    // irregular variant names under every case rule: underscores and digits inside, runs of capitals
    for rule in std::iter::once(None).chain(Rule::ALL.into_iter().filter(|r| *r != Rule::None).map(Some)) {
        let variants = vec![
            Variant { rust: "Tls1_2".into(), rename: None, skip: false, word: None, body: VBody::Unit },
            Variant { rust: "Quic_Draft".into(), rename: None, skip: false, word: None, body: VBody::Newtype(Ty::U32) },
            Variant { rust: "ABc".into(), rename: None, skip: false, word: None, body: VBody::Struct(vec![Field::new("x", Ty::U32)]) },
            // a struct variant that declares no field: everything written inside it is unknown
            Variant { rust: "Empty".into(), rename: None, skip: false, word: None, body: VBody::Struct(vec![]) },
            // one-character effective name (a char literal is still not a string)
            Variant { rust: "Q".into(), rename: None, skip: false, word: None, body: VBody::Unit },
            // newtype whose payload has a value-for-absent without being spelled `Option`
            Variant { rust: "Sw".into(), rename: None, skip: false, word: None, body: VBody::Newtype(Ty::Flag) },
        ];
        out.push(Program {
            decls: vec![Decl::Enum(EnumDecl { rule, from_word: false, from_none: false, allow_unknown: None, variants })],
            root: 0,
            family: format!("enum odd-names cfg({rule:?})"),
        });
    }
    out
}

/// All whole-item forms tried on an enum root named `e` (word, name-value) ...
pub fn enum_root_forms(prog: &Program) -> Vec<Item> {
    let en = prog.en(prog.root);
    let mut names: Vec<String> = vec![];
    for v in &en.variants {
        names.push(en.eff_name(v));
        names.push(v.rust.clone());
        for r in Rule::ALL {
            names.push(r.variant(&v.rust));
        }
        if let Some(r) = &v.rename {
            names.push(r.clone());
            names.push(format!("{r}x"));
        }
    }
    names.push("zz".into());
    names.push("alpha_bet".into());
    names.sort();
    names.dedup();
    let mut v = vec![Item::word("e"), Item::nv("e", "5"), Item::nv("e", "true"), Item::nv("e", "'c'"), Item::nv("e", "1 + 2"), Item::nv("e", "a::b")];
    for n in &names {
        v.push(Item::nv("e", &format!("\"{n}\"")));
        // a char literal spelling the whole name
        if n.chars().count() == 1 && n != "'" && n != "\\" {
            v.push(Item::nv("e", &format!("'{n}'")));
        }
    }
    v
}

/// ... and the alphabet of nested items for the list form.
pub fn enum_list_alphabet(prog: &Program) -> Vec<Item> {
    let en = prog.en(prog.root);
    let mut names: Vec<String> = vec![];
    for v in &en.variants {
        names.push(en.eff_name(v));
        names.push(v.rust.clone());
    }
    names.sort();
    names.dedup();
    let mut out = vec![];
    for n in names.iter().filter(|n| !n.contains('-')) {
        out.push(Item::word(n));
        out.push(Item::nv(n, "1"));
        out.push(Item::nv(n, "\"x\""));
        out.push(Item::list(n, vec![Item::nv("x", "1")]));
        out.push(Item::list(n, vec![Item::nv("X", "1")]));
        out.push(Item::list(n, vec![Item::nv("x", "1"), Item::nv("zz", "1")]));
        out.push(Item::list(n, vec![Item::nv("x", "1"), Item::nv("p_q", "2")]));
        out.push(Item::list(n, vec![Item::nv("p_q", "2"), Item::nv("x", "1"), Item::nv("r", "3")]));
        out.push(Item::list(n, vec![]));
        // a list holding one literal is a list (a newtype variant hands it to its inner type as such)
        out.push(Item::list(n, vec![Item::lit("3")]));
    }
    // a qualified path whose last segment is a variant name is not that variant
    if let Some(n) = names.iter().find(|n| !n.contains('-')) {
        out.push(Item::word(&format!("q::{n}")));
        out.push(Item::nv(&format!("q::{n}"), "1"));
        out.push(Item::list(&format!("{n}::{n}"), vec![Item::nv("x", "1")]));
    }
    out.push(Item::lit("\"lit\""));
    out.push(Item::word("zz"));
    out
}

// ------------------------------------------------------------------ attribute corpus (C08)

pub fn attr_corpus(thorough: bool) -> Vec<Program> {
    let mut out = vec![];
    let name_sets: Vec<Vec<&str>> = vec![vec!["a"], vec!["a", "b"], vec!["a", "c::d", "e::f"]];
    let fwds: Vec<Fwd> = vec![Fwd::Absent, Fwd::All, Fwd::Only(vec!["doc".into(), "allow".into()]), Fwd::Only(vec![]), Fwd::Only(vec!["doc".into(), "a::a".into(), "z::w".into(), "b".into()])];
    for t in [Trait::FromDeriveInput, Trait::FromField, Trait::FromVariant, Trait::FromTypeParam, Trait::FromAttributes] {
        for (ni, names) in name_sets.iter().enumerate() {
            for (fi, fwd) in fwds.iter().enumerate() {
                if !thorough && (ni + fi + t as usize) % 2 == 1 && !(ni == 1 && fi == 1) {
                    continue;
                }
                let mut pool: Vec<Decl> = vec![Decl::Struct(StructDecl::new(t, vec![]))];
                let child = child_struct(&mut pool, false);
                if let Decl::Struct(c) = &mut pool[child] {
                    c.from_none = true; // `n` is optional: absent -> the child's from_none value
                }
                let mut m = Field::new("m", Ty::U32);
                m.multiple = true;
                let fields = vec![Field::new("alpha", Ty::U32), Field::new("gamma", Ty::OptU32), m, Field::new("n", Ty::Struct(child))];
                let mut s = StructDecl::new(t, fields);
                s.attrs = names.iter().map(|x| x.to_string()).collect();
                s.fwd = fwd.clone();
                if *fwd != Fwd::Absent {
                    s.magic = vec!["attrs".into()];
                }
                pool[0] = Decl::Struct(s);
                out.push(Program { decls: pool, root: 0, family: format!("attrs {} names={:?} fwd={:?}", t.name(), names, fwd) });
            }
        }
    }
    // receivers whose members can each be given once (no `multiple`, no flatten, nothing
    // forwarded): once every member has a value, later attributes are still read and judged
    for t in [Trait::FromDeriveInput, Trait::FromField, Trait::FromVariant, Trait::FromTypeParam, Trait::FromAttributes] {
        for fields in [vec![Field::new("alpha", Ty::U32), Field::new("gamma", Ty::OptU32)], vec![Field::new("alpha", Ty::U32)]] {
            let n = fields.len();
            let mut s = StructDecl::new(t, fields);
            s.attrs = vec!["a".into(), "b".into()];
            out.push(Program { decls: vec![Decl::Struct(s)], root: 0, family: format!("attrs {} names=[a, b] single-valued members={n}", t.name()) });
        }
    }
    // receivers whose only addressable member is a flatten member (every item of every attribute
    // goes to it), without and with a skipped sibling
    for t in [Trait::FromDeriveInput, Trait::FromField, Trait::FromVariant, Trait::FromTypeParam, Trait::FromAttributes] {
        for with_skip in [false, true] {
            let mut pool: Vec<Decl> = vec![Decl::Struct(StructDecl::new(t, vec![])), Decl::Struct(StructDecl::new(Trait::FromMeta, vec![]))];
            let child = child_struct(&mut pool, false);
            if let Decl::Struct(c) = &mut pool[child] {
                c.from_none = true;
            }
            let mut m = Field::new("m", Ty::U32);
            m.multiple = true;
            pool[1] = Decl::Struct(StructDecl::new(Trait::FromMeta, vec![Field::new("alpha", Ty::U32), Field::new("gamma", Ty::OptU32), m, Field::new("n", Ty::Struct(child))]));
            let mut fl = Field::new("inner", Ty::Struct(1));
            fl.flatten = true;
            let mut fields = vec![fl];
            if with_skip {
                let mut sk = Field::new("hidden", Ty::U32);
                sk.skip = true;
                fields.insert(0, sk);
            }
            let mut s = StructDecl::new(t, fields);
            s.attrs = vec!["a".into(), "b".into()];
            pool[0] = Decl::Struct(s);
            out.push(Program { decls: pool, root: 0, family: format!("attrs {} names=[a, b] flatten-only skip={with_skip}", t.name()) });
        }
    }
    // receivers with declared attribute names but no ordinary member (magic members only)
    for t in [Trait::FromDeriveInput, Trait::FromField, Trait::FromVariant, Trait::FromTypeParam, Trait::FromAttributes] {
        // forward lists that overlap the receiver's own attribute names partly, wholly (every
        // forwarded name is also claimed: nothing is ever forwarded) and in reverse order
        for fwd in [Fwd::All, Fwd::Only(vec!["doc".into(), "a".into()]), Fwd::Only(vec!["a".into()]), Fwd::Only(vec!["b".into(), "a".into()])] {
            let mut s = StructDecl::new(t, vec![]);
            s.attrs = vec!["a".into(), "b".into()];
            s.fwd = fwd.clone();
            s.magic = vec!["attrs".into()];
            out.push(Program { decls: vec![Decl::Struct(s)], root: 0, family: format!("attrs {} names=[a, b] no-members fwd={:?}", t.name(), fwd) });
        }
    }
    // receivers that read no attribute of their own and only forward
    for t in [Trait::FromDeriveInput, Trait::FromField, Trait::FromVariant, Trait::FromTypeParam] {
        for fwd in [Fwd::All, Fwd::Only(vec!["doc".into(), "allow".into()]), Fwd::Only(vec![])] {
            let mut s = StructDecl::new(t, vec![Field::new("gamma", Ty::OptU32)]);
            s.attrs = vec![];
            s.fwd = fwd.clone();
            s.magic = vec!["attrs".into()];
            out.push(Program { decls: vec![Decl::Struct(s)], root: 0, family: format!("attrs {} names=[] fwd={:?}", t.name(), fwd) });
        }
    }
    out
}

pub fn attr_alphabet() -> Vec<Item> {
    vec![
        Item::nv("alpha", "5"),
        Item::nv("alpha", "\"x\""),
        Item::nv("gamma", "1"),
        Item::nv("m", "1"),
        Item::nv("m", "\"bad\""),
        Item::list("n", vec![Item::nv("x", "1")]),
        Item::list("n", vec![]),
        Item::nv("zz", "1"),
        Item::lit("\"lit\""),
    ]
}

/// Attributes that must have no effect on parsing (raw source text).
pub fn foreign_attrs() -> Vec<&'static str> {
    vec![
        "#[doc = \"x\"]",
        "#[cfg(any())]",
        "#[derive(Debug)]",
        "#[allow(dead_code)]",
        "#[weird(a b ;)]",
        "#[other = 1 + 2]",
        "#[a]",
        "#[a()]",
        "#[::a(alpha = 9)]",
        "#[a::a(alpha = 9)]",
        "#[z::w(k)]",
        "#[doc(hidden)]",
    ]
}

// ------------------------------------------------------------------ suggestion corpus (C17)

fn opt(name: &str) -> Field {
    Field::new(name, Ty::OptU32)
}

pub fn sugg_corpus() -> Vec<Program> {
    let mut out = vec![];
    let st = |fields: Vec<Field>| Decl::Struct(StructDecl::new(Trait::FromMeta, fields));
    // P1: plain / renamed / skipped / multiple
    {
        let mut ren = opt("ipsum");
        ren.rename = Some("dolor".into());
        let mut sk = Field::new("amet", Ty::U32);
        sk.skip = true;
        let mut mu = Field::new("sit", Ty::U32);
        mu.multiple = true;
        out.push(Program { decls: vec![st(vec![opt("lorem"), ren, sk, mu])], root: 0, family: "sugg flat-struct".into() });
    }
    // P1c: names outside ASCII (similarity is a matter of characters, not bytes), also lent
    // through a flatten member
    {
        let mut ren = opt("name_x");
        ren.rename = Some("имя".into());
        out.push(Program { decls: vec![st(vec![opt("über"), opt("öde"), opt("menu"), opt("manü"), ren])], root: 0, family: "sugg non-ascii".into() });
        let mut fl = Field::new("inner", Ty::Struct(1));
        fl.flatten = true;
        out.push(Program { decls: vec![st(vec![opt("größe"), opt("grosse"), fl]), st(vec![opt("höhe"), opt("hohe")])], root: 0, family: "sugg non-ascii flatten".into() });
    }
    // P2: flatten depth 1, skipped member inside the child
    {
        let mut sk = Field::new("secret", Ty::U32);
        sk.skip = true;
        let mut fl = Field::new("inner", Ty::Struct(1));
        fl.flatten = true;
        out.push(Program { decls: vec![st(vec![opt("first"), opt("last_name"), fl]), st(vec![opt("lorem"), opt("example"), sk])], root: 0, family: "sugg flatten1".into() });
    }
    // P1b: long names sharing a long prefix (several candidates score above 0.95: the best one,
    // not the first one, is offered), also lent through a flatten member
    {
        out.push(Program { decls: vec![st(vec![opt("max_connection"), opt("max_connections"), opt("max_connections_total"), opt("min_connection_timeout_ms")])], root: 0, family: "sugg long-names".into() });
        let mut fl = Field::new("inner", Ty::Struct(1));
        fl.flatten = true;
        out.push(Program {
            decls: vec![st(vec![opt("request_timeout"), opt("request_timeout_ms"), fl]), st(vec![opt("request_timeouts"), opt("retry")])],
            root: 0,
            family: "sugg long-names flatten".into(),
        });
    }
    // P2b/P2c: the flatten member's siblings are renamed (explicitly / by the container's case
    // rule): the names lent to the flatten member are the attribute names, not the identifiers
    {
        let mut ren = opt("last_name");
        ren.rename = Some("surname".into());
        let mut fl = Field::new("inner", Ty::Struct(1));
        fl.flatten = true;
        out.push(Program { decls: vec![st(vec![opt("first"), ren, fl]), st(vec![opt("lorem"), opt("example")])], root: 0, family: "sugg flatten1 renamed-sibling".into() });
        let mut fl = Field::new("inner", Ty::Struct(1));
        fl.flatten = true;
        let mut root = StructDecl::new(Trait::FromMeta, vec![opt("max_size"), opt("min_size_x"), fl]);
        root.rule = Rule::Camel;
        let mut child = StructDecl::new(Trait::FromMeta, vec![opt("lorem_ipsum"), opt("example")]);
        child.rule = Rule::Screaming;
        out.push(Program { decls: vec![Decl::Struct(root), Decl::Struct(child)], root: 0, family: "sugg flatten1 rename_all".into() });
    }
    // P3: flatten depth 2 with overlapping names
    {
        let mut fb = Field::new("b", Ty::Struct(2));
        fb.flatten = true;
        let mut fa = Field::new("a", Ty::Struct(1));
        fa.flatten = true;
        out.push(Program {
            decls: vec![st(vec![opt("alpha"), opt("color_map"), fa]), st(vec![opt("beta_x"), opt("alpha_ray"), fb]), st(vec![opt("gamma_ray"), opt("colour")])],
            root: 0,
            family: "sugg flatten2".into(),
        });
    }
    // P3b: flatten depth 3
    {
        let mut f3 = Field::new("c", Ty::Struct(3));
        f3.flatten = true;
        let mut f2 = Field::new("b", Ty::Struct(2));
        f2.flatten = true;
        let mut f1 = Field::new("a", Ty::Struct(1));
        f1.flatten = true;
        out.push(Program {
            decls: vec![st(vec![opt("relax"), f1]), st(vec![opt("relay"), f2]), st(vec![opt("realx"), f3]), st(vec![opt("lax_real"), opt("exa")])],
            root: 0,
            family: "sugg flatten3".into(),
        });
    }
    // P3c..P3g: flatten depth 3 where one level (or every level) also has a required member,
    // so that level adds an error of its own and unknown names travel upwards inside nested
    // groups of errors
    for req in 0..5usize {
        let mut f3 = Field::new("c", Ty::Struct(3));
        f3.flatten = true;
        let mut f2 = Field::new("b", Ty::Struct(2));
        f2.flatten = true;
        let mut f1 = Field::new("a", Ty::Struct(1));
        f1.flatten = true;
        let mut levels = vec![vec![opt("relax"), f1], vec![opt("relay"), f2], vec![opt("realx"), f3], vec![opt("lax_real"), opt("exa")]];
        for (i, l) in levels.iter_mut().enumerate() {
            if req == i || req == 4 {
                l.insert(1, Field::new(&format!("need_{i}"), Ty::U32));
            }
        }
        out.push(Program { decls: levels.into_iter().map(st).collect(), root: 0, family: format!("sugg flatten3 required@{}", if req == 4 { "all".to_string() } else { req.to_string() }) });
    }
    // P4: nested (non-flatten) child inside the flatten child
    {
        let mut fl = Field::new("inner", Ty::Struct(1));
        fl.flatten = true;
        out.push(Program {
            decls: vec![st(vec![opt("blast"), opt("firsts"), fl]), st(vec![Field::new("parent", Ty::Struct(2)), opt("example")]), st(vec![opt("first"), opt("last")])],
            root: 0,
            family: "sugg nested-in-flatten".into(),
        });
    }
    // P4b/P4c: the same with required members, so the nested value reports a group of two or
    // more errors (an unknown name and a missing one) next to errors of the flatten member itself
    for req_mid in [false, true] {
        let mut fl = Field::new("inner", Ty::Struct(1));
        fl.flatten = true;
        let mut mid = vec![Field::new("parent", Ty::Struct(2)), opt("example")];
        if req_mid {
            mid.push(Field::new("needed", Ty::U32));
        }
        out.push(Program {
            decls: vec![st(vec![opt("blast"), opt("firsts"), fl]), st(mid), st(vec![opt("first"), Field::new("last", Ty::U32), Field::new("least", Ty::U32)])],
            root: 0,
            family: format!("sugg nested-in-flatten required{}", if req_mid { "+mid" } else { "" }),
        });
    }
    // P6: skip and flatten in the same receiver
    {
        let mut sk = Field::new("amet", Ty::U32);
        sk.skip = true;
        let mut fl = Field::new("inner", Ty::Struct(1));
        fl.flatten = true;
        out.push(Program { decls: vec![st(vec![opt("lorem"), sk, fl]), st(vec![opt("ipsum"), opt("ame")])], root: 0, family: "sugg skip+flatten".into() });
    }
    // P5: enum with renamed and skipped variants (root)
    {
        let variants = vec![
            Variant { rust: "Alpha".into(), rename: None, skip: false, word: None, body: VBody::Unit },
            Variant { rust: "Beta".into(), rename: Some("beta_x".into()), skip: false, word: None, body: VBody::Unit },
            Variant { rust: "Alphb".into(), rename: None, skip: true, word: None, body: VBody::Unit },
            Variant { rust: "GammaRay".into(), rename: None, skip: false, word: None, body: VBody::Newtype(Ty::U32) },
        ];
        out.push(Program { decls: vec![Decl::Enum(EnumDecl { rule: None, from_word: false, from_none: false, allow_unknown: None, variants })], root: 0, family: "sugg enum".into() });
    }
    // P7: enum whose struct variants have a flatten member in first / middle / last position
    {
        let mk = |pos: usize| {
            let mut fl = Field::new("inner", Ty::Struct(1));
            fl.flatten = true;
            let mut fs = vec![opt("label"), opt("depth_min")];
            fs.insert(pos, fl);
            fs
        };
        let variants = vec![
            Variant { rust: "Head".into(), rename: None, skip: false, word: None, body: VBody::Struct(mk(0)) },
            Variant { rust: "Mid".into(), rename: None, skip: false, word: None, body: VBody::Struct(mk(1)) },
            Variant { rust: "Tail".into(), rename: None, skip: false, word: None, body: VBody::Struct(mk(2)) },
            Variant { rust: "Plain".into(), rename: None, skip: false, word: None, body: VBody::Struct(vec![opt("label"), opt("width")]) },
        ];
        out.push(Program {
            decls: vec![Decl::Enum(EnumDecl { rule: None, from_word: false, from_none: false, allow_unknown: None, variants }), st(vec![opt("depth_max"), opt("labels")])],
            root: 0,
            family: "sugg enum struct-variants with flatten".into(),
        });
    }
    out
}

/// All strings within `dist` edits (insert / delete / substitute over a 6-letter alphabet,
/// adjacent transposition) of `name`.
pub fn edits(name: &str, dist: usize) -> Vec<String> {
    const ALPHA: [char; 6] = ['a', 'e', 'l', 'r', '_', 'x'];
    let mut all: std::collections::BTreeSet<String> = std::collections::BTreeSet::new();
    let mut frontier: Vec<String> = vec![name.to_string()];
    all.insert(name.to_string());
    for _ in 0..dist {
        let mut next = vec![];
        for w in &frontier {
            let cs: Vec<char> = w.chars().collect();
            for i in 0..cs.len() {
                let mut d = cs.clone();
                d.remove(i);
                next.push(d.iter().collect::<String>());
                for a in ALPHA {
                    let mut sub = cs.clone();
                    sub[i] = a;
                    next.push(sub.iter().collect());
                }
                if i + 1 < cs.len() {
                    let mut tr = cs.clone();
                    tr.swap(i, i + 1);
                    next.push(tr.iter().collect());
                }
            }
            for i in 0..=cs.len() {
                for a in ALPHA {
                    let mut ins = cs.clone();
                    ins.insert(i, a);
                    next.push(ins.iter().collect());
                }
            }
        }
        frontier = vec![];
        for n in next {
            let valid = !n.is_empty() && !n.starts_with(|c: char| c.is_ascii_digit()) && n != "_";
            if valid && all.insert(n.clone()) {
                frontier.push(n);
            }
        }
    }
    all.into_iter().collect()
}

// ------------------------------------------------------------------ name-clash corpus (C20)

pub const CLASH_IDENTS: [&str; 50] = [
    "default", "skip", "map", "with", "rename", "multiple", "flatten", "word", "attributes", "supports", "and_then", "from_word", "from_none", "bound",
    "errors", "items", "item", "inner", "name", "other", "len", "val", "value", "lit", "outer", "nested", "data", "attr", "fwd_attrs", "body",
    "ident", "vis", "ty", "attrs", "generics", "fields", "bounds", "discriminant",
    "r#type", "r#match", "r#fn", "r#struct", "result", "darling", "syn", "core", "std", "di", "meta", "error",
];

/// Receivers whose ordinary field / variant names coincide with darling's option words, the
/// un-prefixed forms of generated locals, magic-field names (on FromMeta, where they are not
/// magic) and raw identifiers; every field kind of the struct corpus appears next to them.
pub fn clash_corpus() -> Vec<Program> {
    let mut out = vec![];
    // names that are magic members for a trait (a different meaning there, covered by C16);
    // everywhere else they are ordinary member names
    let magic_for = |t: Trait| -> &'static [&'static str] {
        match t {
            Trait::FromMeta => &[],
            Trait::FromDeriveInput => &["ident", "vis", "generics", "data", "attrs"],
            Trait::FromField => &["ident", "vis", "ty", "attrs"],
            Trait::FromVariant => &["ident", "discriminant", "fields", "attrs"],
            Trait::FromTypeParam => &["ident", "bounds", "default", "attrs"],
            Trait::FromAttributes => &["attrs"],
        }
    };
    for (i, id) in CLASH_IDENTS.iter().enumerate() {
        for t in Trait::ALL {
            let magic_names = magic_for(t);
            if magic_names.contains(id) {
                continue;
            }
            let mut pool: Vec<Decl> = vec![Decl::Struct(StructDecl::new(t, vec![]))];
            let k1 = [0usize, 2, 3, 5, 6, 12, 1, 11][i % 8];
            let k2 = [7usize, 8, 9, 10, 4, 3, 2, 6][(i / 2) % 8];
            let mut f1 = kind_field(k1, 0, &mut pool);
            f1.rust = id.to_string();
            let f2 = kind_field(k2, 1, &mut pool);
            let mut f3 = kind_field(0, 2, &mut pool);
            f3.rust = CLASH_IDENTS[(i + 7) % CLASH_IDENTS.len()].to_string();
            if f3.rust == f1.rust || magic_names.contains(&f3.rust.as_str()) {
                f3.rust = "plain_z".into();
            }
            let mut s = StructDecl::new(t, vec![f1, f2, f3]);
            apply_config(&mut s, [0usize, 1, 2, 3, 4, 5][i % 6]);
            if s.rule == Rule::Kebab {
                s.rule = Rule::None;
            }
            pool[0] = Decl::Struct(s);
            out.push(Program { decls: pool, root: 0, family: format!("clash field `{id}` {}", t.name()) });
        }
        // as a variant name (unit, newtype and struct variants) and as a struct-variant field
        if !id.starts_with("r#") || *id == "r#type" {
            let variants = vec![
                Variant { rust: id.to_string(), rename: None, skip: false, word: None, body: VBody::Unit },
                Variant { rust: format!("{}_n", id.trim_start_matches("r#")), rename: None, skip: false, word: None, body: VBody::Newtype(Ty::U32) },
                Variant { rust: "Holder".into(), rename: None, skip: false, word: None, body: VBody::Struct(vec![Field::new(id, Ty::U32), Field::new(if *id == "errors" { "items" } else { "errors" }, Ty::OptU32)]) },
            ];
            out.push(Program { decls: vec![Decl::Enum(EnumDecl { rule: None, from_word: false, from_none: false, allow_unknown: None, variants })], root: 0, family: format!("clash variant `{id}`") });
        }
    }
    // prelude-like variant names
    for id in ["None", "Some", "Ok", "Err", "Self_", "Vec", "Option", "Result", "String", "Box", "Default"] {
        let variants = vec![
            Variant { rust: id.to_string(), rename: None, skip: false, word: None, body: VBody::Unit },
            Variant { rust: "Other".into(), rename: None, skip: false, word: None, body: VBody::Newtype(Ty::OptU32) },
        ];
        out.push(Program { decls: vec![Decl::Enum(EnumDecl { rule: None, from_word: false, from_none: false, allow_unknown: None, variants })], root: 0, family: format!("clash variant `{id}`") });
    }
    out
}

// ------------------------------------------------------------------ wide receivers (C01)

/// One struct whose 216 u32 fields carry every combination of
/// {rename} x {default -/Trait/Fn} x {skip} x {multiple} x {with -/path/closure} x {map/and_then}.
pub fn wide_fields() -> Vec<Field> {
    let mut v = vec![];
    let mut idx = 0;
    for rename in [false, true] {
        for dflt in [Dflt::None, Dflt::Trait, Dflt::Fn] {
            for skip in [false, true] {
                for multiple in [false, true] {
                    for with in [With::None, With::Path, With::Closure] {
                        for tr in [Tr::None, Tr::Map, Tr::AndThen] {
                            let mut f = Field::new(&format!("f{idx:03}_ab"), Ty::U32);
                            if rename {
                                f.rename = Some(format!("rn{idx}"));
                            }
                            f.dflt = dflt;
                            f.skip = skip;
                            f.multiple = multiple;
                            f.with = with;
                            f.tr = tr;
                            v.push(f);
                            idx += 1;
                        }
                    }
                }
            }
        }
    }
    v
}

pub fn wide_corpus(thorough: bool) -> Vec<Program> {
    let mut out = vec![];
    let mut push = |t: Trait, rule: Rule, dflt: Dflt, tr: Tr, au: Option<bool>, from_ident: bool| {
        let mut s = StructDecl::new(t, wide_fields());
        s.rule = rule;
        s.dflt = dflt;
        s.tr = tr;
        s.allow_unknown = au;
        s.from_ident = from_ident;
        out.push(Program { decls: vec![Decl::Struct(s)], root: 0, family: format!("wide {} rule={:?} default={:?} transform={:?} allow_unknown={:?} from_ident={}", t.name(), rule, dflt, tr, au, from_ident) });
    };
    if thorough {
        for rule in Rule::ALL {
            for dflt in [Dflt::None, Dflt::Trait, Dflt::Fn] {
                for tr in [Tr::None, Tr::Map, Tr::AndThen] {
                    for au in [None, Some(true)] {
                        push(Trait::FromMeta, rule, dflt, tr, au, false);
                    }
                }
            }
        }
        for t in [Trait::FromDeriveInput, Trait::FromField, Trait::FromVariant, Trait::FromTypeParam, Trait::FromAttributes] {
            for (i, rule) in Rule::ALL.iter().enumerate() {
                let dflt = [Dflt::None, Dflt::Trait, Dflt::Fn][i % 3];
                let tr = [Tr::None, Tr::Map, Tr::AndThen][(i / 2) % 3];
                push(t, *rule, dflt, tr, if i % 2 == 0 { None } else { Some(true) }, false);
                if t != Trait::FromAttributes {
                    push(t, *rule, Dflt::None, Tr::None, None, true);
                }
            }
        }
    } else {
        push(Trait::FromMeta, Rule::None, Dflt::None, Tr::None, None, false);
        push(Trait::FromMeta, Rule::Camel, Dflt::Trait, Tr::Map, Some(true), false);
        push(Trait::FromMeta, Rule::Screaming, Dflt::Fn, Tr::AndThen, None, false);
        push(Trait::FromMeta, Rule::Pascal, Dflt::None, Tr::None, Some(true), false);
        push(Trait::FromDeriveInput, Rule::Lower, Dflt::Fn, Tr::None, None, false);
        push(Trait::FromVariant, Rule::Camel, Dflt::None, Tr::Map, None, true);
        push(Trait::FromField, Rule::None, Dflt::Trait, Tr::None, Some(true), false);
        push(Trait::FromField, Rule::Kebab, Dflt::None, Tr::None, None, true);
        push(Trait::FromDeriveInput, Rule::None, Dflt::None, Tr::Map, None, true);
        push(Trait::FromTypeParam, Rule::Snake, Dflt::None, Tr::AndThen, None, false);
        push(Trait::FromAttributes, Rule::Pascal, Dflt::Fn, Tr::None, None, false);
    }
    out
}

/// Mistake-free item forms for a field (C01's deeper exploration): every accepted literal form.
pub fn valid_field_items(prog: &Program, s: &StructDecl, f: &Field) -> Vec<Item> {
    let name = s.eff_name(f);
    if name.contains('-') || f.skip {
        return vec![];
    }
    if f.flatten {
        let mut v = vec![];
        match &f.ty {
            Ty::Struct(c) | Ty::BoxStruct(c) => {
                let child = prog.st(*c);
                for cf in &child.fields {
                    v.extend(valid_field_items(prog, child, cf).into_iter().take(2));
                }
            }
            Ty::MapU32 => {
                v.push(Item::nv("k", "2"));
                v.push(Item::nv("j", "0x3"));
                // the flatten member's own name is just another key for the child
                v.push(Item::nv(&name, "1"));
            }
            _ => {}
        }
        return v;
    }
    match &f.ty {
        Ty::U32 | Ty::OptU32 => vec![Item::nv(&name, "5"), Item::nv(&name, "\"7\""), Item::nv(&name, "0x10"), Item::nv(&name, "9u32"), Item::nv(&name, "1_1")],
        Ty::Bool => vec![Item::word(&name), Item::nv(&name, "false"), Item::nv(&name, "\"true\"")],
        Ty::Str => vec![Item::nv(&name, "\"s\"")],
        Ty::Flag => vec![Item::word(&name)],
        Ty::Struct(c) | Ty::BoxStruct(c) => {
            let child = prog.st(*c);
            if child.fields.len() >= 2 && !child.fields.iter().any(|cf| matches!(cf.ty, Ty::Struct(_)) || cf.flatten) {
                let a = child.eff_name(&child.fields[0]);
                let b = child.eff_name(&child.fields[1]);
                vec![Item::list(&name, vec![Item::nv(&a, "1")]), Item::list(&name, vec![Item::nv(&b, "3"), Item::nv(&a, "\"2\"")])]
            } else {
                field_items(prog, s, f).into_iter().take(4).collect()
            }
        }
        Ty::Enum(e) => {
            let en = prog.en(*e);
            let vn: Vec<String> = en.variants.iter().map(|v| en.eff_name(v)).collect();
            vec![
                Item::nv(&name, &format!("\"{}\"", vn[0])),
                Item::list(&name, vec![Item::word(&vn[0])]),
                Item::list(&name, vec![Item::nv(&vn[1], "4")]),
                Item::list(&name, vec![Item::list(&vn[2], vec![Item::nv("x", "1")])]),
            ]
        }
        Ty::MapU32 => vec![Item::list(&name, vec![Item::nv("k", "1")]), Item::list(&name, vec![Item::nv("k", "1"), Item::nv("j", "\"2\"")]), Item::list(&name, vec![])],
    }
}

pub fn valid_alphabet(prog: &Program) -> Vec<Item> {
    let s = prog.st(prog.root);
    let mut v = vec![];
    for f in &s.fields {
        v.extend(valid_field_items(prog, s, f));
    }
    if s.allows_unknown() && !s.fields.iter().any(|f| f.flatten) {
        v.push(Item::nv("zz", "1"));
        v.push(Item::list("zz", vec![Item::word("a")]));
        // a name that differs from a member's only in case is as unknown as any other
        if let Some(f) = s.fields.iter().find(|f| !f.skip && !f.flatten) {
            let n = s.eff_name(f);
            let other: String = if n.chars().any(|c| c.is_ascii_lowercase()) { n.to_ascii_uppercase() } else { n.to_ascii_lowercase() };
            if other != n && !n.contains('-') && !n.starts_with("r#") && !s.fields.iter().any(|g| s.eff_name(g) == other) {
                v.push(Item::nv(&other, "77"));
            }
        }
        for f in s.fields.iter().filter(|f| f.skip) {
            let n = s.eff_name(f);
            if !n.contains('-') {
                v.push(Item::nv(&n, "5"));
            }
        }
    }
    v
}
