//! Reference interpreter: a direct reading of the statements of C01, C02, C03, C09 and C14.
//! `interp(program, printed items)` predicts the value or the multiset of error leaves
//! (message kind, location path, source region).
use crate::input::{Cols, Item, PItem};
use crate::ir::*;
use serde::{Deserialize, Serialize};

#[derive(Clone, Debug, PartialEq, Eq, Hash, Serialize, Deserialize, PartialOrd, Ord)]
pub enum Msg {
    Unknown(String),
    Duplicate(String),
    Missing(String),
    /// `unsupported_format(x)`
    Format(String),
    UnknownValue(String),
    UnexpectedType(String),
    Custom(String),
    TooFew(usize),
    TooMany(usize),
    /// message text comes from syn (overflow, malformed list): not compared
    Any,
}

#[derive(Clone, Copy, Debug, PartialEq, Eq, Hash, Serialize, Deserialize, PartialOrd, Ord)]
pub enum Region {
    /// the error must carry an explicit span inside these columns
    In(Cols),
    /// nothing encloses the absence (root of an attribute set / body field): unspanned is
    /// allowed, and then the rendered diagnostic must contain the location path
    Root,
}

#[derive(Clone, Debug, PartialEq, Eq, Hash, Serialize, Deserialize, PartialOrd, Ord)]
pub struct Leaf {
    pub msg: Msg,
    /// outer-to-inner; a `multiple` occurrence contributes `name[*]`
    pub path: Vec<String>,
    pub region: Region,
}

#[derive(Clone, Debug, PartialEq, Eq)]
pub struct Expect {
    pub value: Option<Val>,
    pub leaves: Vec<Leaf>,
}

impl Expect {
    fn ok(v: Val) -> Expect {
        Expect { value: Some(v), leaves: vec![] }
    }
    fn err(leaves: Vec<Leaf>) -> Expect {
        Expect { value: None, leaves }
    }
    fn one(msg: Msg, region: Region) -> Expect {
        Expect::err(vec![Leaf { msg, path: vec![], region }])
    }
    fn at(mut self, seg: &str) -> Expect {
        for l in &mut self.leaves {
            l.path.insert(0, seg.to_string());
        }
        self
    }
    pub fn is_ok(&self) -> bool {
        self.leaves.is_empty()
    }
}

/// Classification of the value tokens of a name-value item (the alphabets only use forms this
/// classifier knows; anything else is a machinery error).
#[derive(Clone, Debug, PartialEq)]
pub enum VClass {
    Int(Option<u128>), // None = does not fit u128
    NegInt,
    Str(String),
    Bool(bool),
    Char,
    Float,
    /// non-literal expression; the payload is darling's name for the expression kind
    Expr(&'static str),
}

pub fn classify(text: &str) -> VClass {
    let t = text.trim();
    if t == "true" {
        return VClass::Bool(true);
    }
    if t == "false" {
        return VClass::Bool(false);
    }
    if t.starts_with('"') && t.ends_with('"') && t.len() >= 2 {
        let inner = &t[1..t.len() - 1];
        assert!(!inner.contains('\\') && !inner.contains('"'), "string literals in alphabets must be escape-free: {t}");
        return VClass::Str(inner.to_string());
    }
    if t.starts_with('\'') {
        return VClass::Char;
    }
    let first = t.chars().next().unwrap_or(' ');
    if t.contains(" + ") {
        return VClass::Expr("binary");
    }
    if first.is_ascii_digit() {
        if !t.starts_with("0x") && (t.contains('.') || t.contains('e')) {
            return VClass::Float;
        }
        let (radix, body) = if let Some(r) = t.strip_prefix("0x") { (16, r) } else { (10, t) };
        let mut digits = String::new();
        for c in body.chars() {
            if c == '_' {
                continue;
            }
            if c.is_digit(radix) {
                digits.push(c);
            } else {
                break;
            }
        }
        return VClass::Int(u128::from_str_radix(&digits, radix).ok());
    }
    if first == '-' && t[1..].trim_start().chars().next().map(|c| c.is_ascii_digit()).unwrap_or(false) {
        return VClass::NegInt;
    }
    if t.contains(" + ") {
        return VClass::Expr("binary");
    }
    if first == '[' {
        return VClass::Expr("array");
    }
    if first == '(' {
        return VClass::Expr("paren");
    }
    if first == '-' || first == '!' {
        return VClass::Expr("unary");
    }
    if first.is_alphabetic() || first == '_' || first == ':' {
        return VClass::Expr("path");
    }
    panic!("vmodel::classify: unclassified value tokens `{t}`");
}

fn lit_kind_name(c: &VClass) -> &'static str {
    match c {
        VClass::Int(_) | VClass::NegInt => "int",
        VClass::Str(_) => "string",
        VClass::Bool(_) => "bool",
        VClass::Char => "char",
        VClass::Float => "float",
        VClass::Expr(k) => k,
    }
}

pub struct Interp<'a> {
    pub prog: &'a Program,
}

impl<'a> Interp<'a> {
    pub fn new(prog: &'a Program) -> Self {
        Interp { prog }
    }

    // ------------------------------------------------------------------ synthesized values

    /// Value of the generated constructor with base `base` for field `i` of type `ty`
    /// (`Default` impl: 6000, container default fn: 5000, From<Ident>: 8000, from_word: 9000,
    /// from_none: 9500).
    pub fn synth_field(&self, f: &Field, i: usize, base: u64) -> Val {
        let one = match &f.ty {
            Ty::U32 => Val::U(base + i as u64),
            Ty::OptU32 => Val::some(Val::U(base + i as u64)),
            Ty::Bool => Val::B(true),
            Ty::Str => Val::S(format!("d{}", base + i as u64)),
            Ty::Flag => Val::B(true),
            Ty::Struct(n) | Ty::BoxStruct(n) => self.synth_struct(*n, DEFAULT_IMPL_BASE),
            Ty::Enum(n) => self.enum_default(*n),
            Ty::MapU32 => Val::Map(vec![("d".to_string(), Val::U(base + i as u64))]),
        };
        if f.multiple {
            Val::List(vec![one])
        } else {
            one
        }
    }

    pub fn synth_struct(&self, n: usize, base: u64) -> Val {
        let s = self.prog.st(n);
        Val::Rec(s.fields.iter().enumerate().map(|(i, f)| (f.rust.clone(), self.synth_field(f, i, base))).collect())
    }

    /// `Default` of a generated enum: its first non-skipped unit variant.
    pub fn enum_default(&self, n: usize) -> Val {
        let e = self.prog.en(n);
        let v = e.variants.iter().find(|v| !v.skip && v.body == VBody::Unit).expect("enum without a unit variant has no Default");
        Val::Var(v.rust.clone(), Box::new(Val::Unit))
    }

    /// `Default::default()` of a field's type (used for skipped fields and `#[darling(default)]`).
    pub fn type_default(&self, f: &Field) -> Val {
        if f.multiple {
            return Val::List(vec![]);
        }
        match &f.ty {
            Ty::U32 => Val::U(0),
            Ty::OptU32 => Val::None,
            Ty::Bool => Val::B(false),
            Ty::Str => Val::S(String::new()),
            Ty::Flag => Val::B(false),
            Ty::Struct(n) | Ty::BoxStruct(n) => self.synth_struct(*n, DEFAULT_IMPL_BASE),
            Ty::Enum(n) => self.enum_default(*n),
            Ty::MapU32 => Val::Map(vec![]),
        }
    }

    /// The type's value-for-absent (`FromMeta::from_none`).
    pub fn from_none(&self, ty: &Ty) -> Option<Val> {
        match ty {
            Ty::OptU32 => Some(Val::None),
            Ty::Flag => Some(Val::B(false)),
            Ty::Struct(n) | Ty::BoxStruct(n) => {
                if self.prog.st(*n).from_none {
                    Some(self.synth_struct(*n, 9500))
                } else {
                    None
                }
            }
            Ty::Enum(n) => {
                if self.prog.en(*n).from_none {
                    Some(self.enum_default(*n))
                } else {
                    None
                }
            }
            _ => None,
        }
    }

    // ------------------------------------------------------------------ conversions

    fn scalar_nv_error(c: &VClass) -> Msg {
        match c {
            VClass::Expr(k) => Msg::UnexpectedType(k.to_string()),
            other => Msg::UnexpectedType(lit_kind_name(other).to_string()),
        }
    }

    fn conv_u32(&self, it: &PItem) -> Expect {
        match &it.item {
            Item::Word(_) => Expect::one(Msg::Format("word".into()), Region::In(it.span)),
            Item::List(..) => Expect::one(Msg::Format("list".into()), Region::In(it.span)),
            Item::Lit(_) => unreachable!(),
            Item::NV(_, v) => {
                let reg = Region::In(it.value_span.unwrap());
                match classify(v) {
                    VClass::Int(Some(n)) if n <= u32::MAX as u128 => Expect::ok(Val::U(n as u64)),
                    VClass::Int(_) | VClass::NegInt => Expect::one(Msg::Any, reg),
                    VClass::Str(s) => match s.parse::<u32>() {
                        Ok(n) => Expect::ok(Val::U(n as u64)),
                        Err(_) => Expect::one(Msg::UnknownValue(s), reg),
                    },
                    c => Expect::one(Self::scalar_nv_error(&c), reg),
                }
            }
        }
    }

    fn conv_bool(&self, it: &PItem) -> Expect {
        match &it.item {
            Item::Word(_) => Expect::ok(Val::B(true)),
            Item::List(..) => Expect::one(Msg::Format("list".into()), Region::In(it.span)),
            Item::Lit(_) => unreachable!(),
            Item::NV(_, v) => {
                let reg = Region::In(it.value_span.unwrap());
                match classify(v) {
                    VClass::Bool(b) => Expect::ok(Val::B(b)),
                    VClass::Str(s) => match s.parse::<bool>() {
                        Ok(b) => Expect::ok(Val::B(b)),
                        Err(_) => Expect::one(Msg::UnknownValue(s), reg),
                    },
                    c => Expect::one(Self::scalar_nv_error(&c), reg),
                }
            }
        }
    }

    fn conv_str(&self, it: &PItem) -> Expect {
        match &it.item {
            Item::Word(_) => Expect::one(Msg::Format("word".into()), Region::In(it.span)),
            Item::List(..) => Expect::one(Msg::Format("list".into()), Region::In(it.span)),
            Item::Lit(_) => unreachable!(),
            Item::NV(_, v) => {
                let reg = Region::In(it.value_span.unwrap());
                match classify(v) {
                    VClass::Str(s) => Expect::ok(Val::S(s)),
                    c => Expect::one(Self::scalar_nv_error(&c), reg),
                }
            }
        }
    }

    fn conv_flag(&self, it: &PItem) -> Expect {
        match &it.item {
            Item::Word(_) => Expect::ok(Val::B(true)),
            Item::List(..) => Expect::one(Msg::Format("list".into()), Region::In(it.span)),
            Item::Lit(_) => unreachable!(),
            Item::NV(_, v) => Expect::one(Self::scalar_nv_error(&classify(v)), Region::In(it.value_span.unwrap())),
        }
    }

    /// Name-value form given to a receiver that only understands lists.
    fn nv_to_receiver(&self, it: &PItem, v: &str) -> Expect {
        Expect::one(Self::scalar_nv_error(&classify(v)), Region::In(it.value_span.unwrap()))
    }

    fn conv_struct(&self, n: usize, it: &PItem) -> Expect {
        let s = self.prog.st(n);
        match &it.item {
            Item::Word(_) => {
                if s.from_word {
                    Expect::ok(self.synth_struct(n, 9000))
                } else {
                    Expect::one(Msg::Format("word".into()), Region::In(it.span))
                }
            }
            Item::NV(_, v) => self.nv_to_receiver(it, v),
            Item::List(_, _) => self.struct_from_list(n, &it.kids, Region::In(it.span)),
            Item::Lit(_) => unreachable!(),
        }
    }

    fn conv_map(&self, it: &PItem) -> Expect {
        match &it.item {
            Item::Word(_) => Expect::one(Msg::Format("word".into()), Region::In(it.span)),
            Item::NV(_, v) => self.nv_to_receiver(it, v),
            Item::List(_, _) => self.map_from_list(&it.kids, Region::In(it.span)),
            Item::Lit(_) => unreachable!(),
        }
    }

    /// `HashMap<String, u32>` from a list (C14's model, specialised).
    /// `whole`: the map-valued item (a literal member is reported at the collection's item).
    pub fn map_from_list(&self, items: &[PItem], whole: Region) -> Expect {
        let mut leaves = vec![];
        let mut seen: Vec<String> = vec![];
        let mut entries: Vec<(String, Val)> = vec![];
        for it in items {
            match &it.item {
                Item::Lit(_) => leaves.push(Leaf { msg: Msg::Format("expression".into()), path: vec![], region: whole }),
                other => {
                    let key = other.name().unwrap().to_string();
                    let dup = seen.contains(&key);
                    if dup {
                        leaves.push(Leaf { msg: Msg::Duplicate(key.clone()), path: vec![], region: Region::In(it.span) });
                    }
                    let v = self.conv_u32(it).at(&key);
                    match v.value {
                        Some(val) if !dup => entries.push((key.clone(), val)),
                        Some(_) => {}
                        None => leaves.extend(v.leaves),
                    }
                    seen.push(key);
                }
            }
        }
        if leaves.is_empty() {
            entries.sort_by(|a, b| a.0.cmp(&b.0));
            Expect::ok(Val::Map(entries))
        } else {
            Expect::err(leaves)
        }
    }

    /// Converts one item into the field's element type (before `with` / transforms).
    pub fn conv_ty(&self, ty: &Ty, it: &PItem) -> Expect {
        match ty {
            Ty::U32 => self.conv_u32(it),
            Ty::Bool => self.conv_bool(it),
            Ty::Str => self.conv_str(it),
            Ty::OptU32 => {
                let mut e = self.conv_u32(it);
                e.value = e.value.map(Val::some);
                e
            }
            Ty::Flag => self.conv_flag(it),
            Ty::Struct(n) | Ty::BoxStruct(n) => self.conv_struct(*n, it),
            Ty::Enum(n) => self.conv_enum(*n, it),
            Ty::MapU32 => self.conv_map(it),
        }
    }

    /// Full per-field conversion: type or `with` converter, then the field's map / and_then.
    fn conv_field(&self, f: &Field, it: &PItem) -> Expect {
        let mut e = self.conv_ty(&f.ty, it);
        if let (Some(Val::Some(inner)), true) = (e.value.clone(), f.with != With::None) {
            if let Val::U(v) = *inner {
                e.value = Some(Val::some(Val::U(v + WITH_ADD)));
            }
        }
        if let Some(Val::U(v)) = e.value.clone() {
            let mut v = v;
            if f.with != With::None {
                v += WITH_ADD;
            }
            match f.tr {
                Tr::None => {}
                Tr::Map => v = map_fn(v),
                Tr::AndThen => {
                    if v == AND_THEN_REJECTS {
                        return Expect::one(Msg::Custom("thirteen".into()), Region::In(it.span));
                    }
                    v = and_then_fn(v);
                }
            }
            e.value = Some(Val::U(v));
        }
        e
    }

    // ------------------------------------------------------------------ struct level

    /// `enclosing`: where a spanless error raised at this level ends up being spanned.
    pub fn struct_from_list(&self, n: usize, items: &[PItem], enclosing: Region) -> Expect {
        let s = self.prog.st(n);
        self.fields_from_list(&s.fields, s, items, enclosing).map_container(self, s)
    }

    fn fields_from_list(&self, fields: &[Field], s: &StructDecl, items: &[PItem], enclosing: Region) -> PartialStruct {
        let names: Vec<String> = fields.iter().map(|f| s.eff_name(f)).collect();
        let mut seen = vec![false; fields.len()];
        let mut vals: Vec<Vec<Val>> = vec![vec![]; fields.len()];
        let mut leaves: Vec<Leaf> = vec![];
        let mut buf: Vec<PItem> = vec![];
        let flatten_idx = fields.iter().position(|f| f.flatten);
        for it in items {
            let name = match it.item.name() {
                None => {
                    leaves.push(Leaf { msg: Msg::Format("literal".into()), path: vec![], region: Region::In(it.span) });
                    continue;
                }
                Some(n) => n.to_string(),
            };
            let hit = fields.iter().enumerate().find(|(i, f)| f.addressable() && names[*i] == name);
            match hit {
                Some((i, f)) => {
                    if f.multiple {
                        let e = self.conv_field(f, it).at(&format!("{name}[*]"));
                        match e.value {
                            Some(v) => vals[i].push(v),
                            None => leaves.extend(e.leaves),
                        }
                    } else if !seen[i] {
                        seen[i] = true;
                        let e = self.conv_field(f, it).at(&name);
                        match e.value {
                            Some(v) => vals[i].push(v),
                            None => leaves.extend(e.leaves),
                        }
                    } else {
                        leaves.push(Leaf { msg: Msg::Duplicate(name.clone()), path: vec![], region: Region::In(it.span) });
                    }
                }
                None => {
                    if flatten_idx.is_some() {
                        buf.push(it.clone());
                    } else if s.allows_unknown() {
                    } else {
                        leaves.push(Leaf { msg: Msg::Unknown(name.clone()), path: vec![], region: Region::In(it.span) });
                    }
                }
            }
        }
        // flatten member: receives the unknown items, in order; contributes no path segment
        if let Some(fi) = flatten_idx {
            let f = &fields[fi];
            let e = match &f.ty {
                Ty::Struct(c) | Ty::BoxStruct(c) => self.struct_from_list(*c, &buf, enclosing),
                Ty::MapU32 => self.map_from_list(&buf, enclosing),
                other => panic!("unsupported flatten target {other:?}"),
            };
            seen[fi] = true;
            match e.value {
                Some(v) => vals[fi].push(v),
                None => leaves.extend(e.leaves),
            }
        }
        // presence
        let mut absent_fallback: Vec<Option<Val>> = vec![None; fields.len()];
        for (i, f) in fields.iter().enumerate() {
            if f.multiple || f.flatten {
                continue;
            }
            let has_default_expr = f.dflt != Dflt::None || s.has_container_default() || f.skip;
            if !seen[i] && !has_default_expr {
                match self.from_none(&f.ty) {
                    Some(v) => absent_fallback[i] = Some(v),
                    None => leaves.push(Leaf { msg: Msg::Missing(names[i].clone()), path: vec![], region: enclosing }),
                }
            }
        }
        PartialStruct { leaves, vals, seen, absent_fallback, fields: fields.to_vec() }
    }

    fn field_default(&self, s: &StructDecl, f: &Field, i: usize) -> Val {
        match f.dflt {
            Dflt::Fn => {
                // generated field default fn
                let one = match &f.ty {
                    Ty::U32 => Val::U(FIELD_DEFAULT_FN),
                    Ty::OptU32 => Val::some(Val::U(FIELD_DEFAULT_FN)),
                    _ => self.synth_field(&Field { multiple: false, ..f.clone() }, i, FIELD_DEFAULT_FN),
                };
                if f.multiple {
                    Val::List(vec![one])
                } else {
                    one
                }
            }
            Dflt::Trait => self.type_default(f),
            Dflt::None => {
                if s.from_ident {
                    self.synth_field(f, i, FROM_IDENT_BASE)
                } else if s.dflt == Dflt::Fn {
                    self.synth_field(f, i, CONTAINER_FN_BASE)
                } else if s.dflt == Dflt::Trait {
                    self.synth_field(f, i, DEFAULT_IMPL_BASE)
                } else {
                    // skipped without any default
                    self.type_default(f)
                }
            }
        }
    }

    // ------------------------------------------------------------------ enums (C09)

    pub fn conv_enum(&self, n: usize, it: &PItem) -> Expect {
        let e = self.prog.en(n);
        match &it.item {
            Item::Lit(_) => unreachable!(),
            Item::Word(_) => {
                if let Some(v) = e.variants.iter().find(|v| v.word == Some(true) && !v.skip) {
                    Expect::ok(Val::Var(v.rust.clone(), Box::new(Val::Unit)))
                } else if e.from_word {
                    Expect::ok(self.enum_default(n))
                } else {
                    Expect::one(Msg::Format("word".into()), Region::In(it.span))
                }
            }
            Item::NV(_, v) => {
                let reg = Region::In(it.value_span.unwrap());
                match classify(v) {
                    VClass::Str(s) => {
                        let hit = e.variants.iter().find(|var| !var.skip && e.eff_name(var) == s);
                        match hit {
                            None => Expect::one(Msg::UnknownValue(s), reg),
                            Some(var) => match &var.body {
                                VBody::Unit => Expect::ok(Val::Var(var.rust.clone(), Box::new(Val::Unit))),
                                VBody::Newtype(ty) => match self.from_none(ty) {
                                    Some(inner) => Expect::ok(Val::Var(var.rust.clone(), Box::new(inner))),
                                    None => Expect::one(Msg::Format("literal".into()), reg),
                                },
                                VBody::Struct(_) => Expect::one(Msg::Format("literal".into()), reg),
                            },
                        }
                    }
                    c => Expect::one(Self::scalar_nv_error(&c), reg),
                }
            }
            Item::List(_, _) => {
                let whole = Region::In(it.span);
                match it.kids.len() {
                    0 => Expect::one(Msg::TooFew(1), whole),
                    1 => {
                        let k = &it.kids[0];
                        let name = match k.item.name() {
                            None => return Expect::one(Msg::Format("literal".into()), whole),
                            Some(n) => n.to_string(),
                        };
                        let hit = e.variants.iter().find(|var| !var.skip && e.eff_name(var) == name);
                        match hit {
                            None => Expect::one(Msg::Unknown(name), Region::In(k.span)),
                            Some(var) => match &var.body {
                                VBody::Unit => match k.item {
                                    Item::Word(_) => Expect::ok(Val::Var(var.rust.clone(), Box::new(Val::Unit))),
                                    _ => Expect::one(Msg::Format("non-path".into()), whole),
                                },
                                VBody::Newtype(ty) => {
                                    let mut inner = self.conv_ty(ty, k).at(&name);
                                    inner.value = inner.value.map(|v| Val::Var(var.rust.clone(), Box::new(v)));
                                    inner
                                }
                                VBody::Struct(fields) => match k.item {
                                    Item::List(..) => {
                                        // struct variants parse like a struct receiver with the
                                        // enum's allow_unknown_fields and no container defaults
                                        let mut pseudo = StructDecl::new(Trait::FromMeta, fields.clone());
                                        pseudo.allow_unknown = e.allow_unknown;
                                        pseudo.rule = e.eff_rule();
                                        let ps = self.fields_from_list(fields, &pseudo, &k.kids, whole);
                                        let mut ex = ps.finish(self, &pseudo).at(&name);
                                        ex.value = ex.value.map(|v| Val::Var(var.rust.clone(), Box::new(v)));
                                        ex
                                    }
                                    _ => Expect::one(Msg::Format("non-list".into()), whole),
                                },
                            },
                        }
                    }
                    _ => Expect::one(Msg::TooMany(1), whole),
                }
            }
        }
    }

    // ------------------------------------------------------------------ roots

    /// Root conversion of a FromMeta receiver from a list of items (`from_list`), or of the
    /// attribute layer of an element-level receiver (all selected attributes' items, in order).
    pub fn root_from_items(&self, items: &[PItem]) -> Expect {
        match &self.prog.decls[self.prog.root] {
            Decl::Struct(_) => self.struct_from_list(self.prog.root, items, Region::Root),
            Decl::Enum(_) => panic!("enum roots are driven through conv_enum with a wrapping item"),
        }
    }
}

pub struct PartialStruct {
    leaves: Vec<Leaf>,
    vals: Vec<Vec<Val>>,
    seen: Vec<bool>,
    absent_fallback: Vec<Option<Val>>,
    fields: Vec<Field>,
}

impl PartialStruct {
    fn finish(self, ip: &Interp, s: &StructDecl) -> Expect {
        if !self.leaves.is_empty() {
            return Expect::err(self.leaves);
        }
        let mut rec = vec![];
        for (i, f) in self.fields.iter().enumerate() {
            let v = if f.multiple {
                if !self.vals[i].is_empty() {
                    Val::List(self.vals[i].clone())
                } else if f.dflt != Dflt::None || s.has_container_default() {
                    ip.field_default(s, f, i)
                } else {
                    Val::List(vec![])
                }
            } else if self.seen[i] && !self.vals[i].is_empty() {
                self.vals[i][0].clone()
            } else if let Some(v) = &self.absent_fallback[i] {
                v.clone()
            } else {
                ip.field_default(s, f, i)
            };
            rec.push((f.rust.clone(), v));
        }
        Expect::ok(Val::Rec(rec))
    }

    fn map_container(self, ip: &Interp, s: &StructDecl) -> Expect {
        let mut e = self.finish(ip, s);
        if let (Some(Val::Rec(rec)), true) = (&mut e.value, s.tr != Tr::None) {
            // the generated container transform rewrites the first plain u32 field
            if let Some(idx) = s.fields.iter().position(|f| f.ty == Ty::U32 && !f.multiple) {
                if let Val::U(v) = rec[idx].1 {
                    match s.tr {
                        Tr::Map => rec[idx].1 = Val::U(map_fn(v)),
                        Tr::AndThen => {
                            if v == AND_THEN_REJECTS {
                                return Expect::one(Msg::Custom("thirteen".into()), Region::Root);
                            }
                            rec[idx].1 = Val::U(and_then_fn(v));
                        }
                        Tr::None => {}
                    }
                }
            }
        }
        e
    }
}
