//! Declaration IR: what a "program" (receiver declaration) is.
use serde::{Deserialize, Serialize};

#[derive(Clone, Copy, Debug, PartialEq, Eq, Hash, Serialize, Deserialize, PartialOrd, Ord)]
pub enum Trait {
    FromMeta,
    FromDeriveInput,
    FromField,
    FromVariant,
    FromTypeParam,
    FromAttributes,
}

impl Trait {
    pub const ALL: [Trait; 6] = [Trait::FromMeta, Trait::FromDeriveInput, Trait::FromField, Trait::FromVariant, Trait::FromTypeParam, Trait::FromAttributes];
    pub fn name(self) -> &'static str {
        match self {
            Trait::FromMeta => "FromMeta",
            Trait::FromDeriveInput => "FromDeriveInput",
            Trait::FromField => "FromField",
            Trait::FromVariant => "FromVariant",
            Trait::FromTypeParam => "FromTypeParam",
            Trait::FromAttributes => "FromAttributes",
        }
    }
    pub fn element_level(self) -> bool {
        self != Trait::FromMeta
    }
}

#[derive(Clone, Copy, Debug, PartialEq, Eq, Hash, Serialize, Deserialize, PartialOrd, Ord)]
pub enum Rule {
    None,
    Lower,
    Pascal,
    Camel,
    Snake,
    Screaming,
    Kebab,
}

impl Rule {
    pub const ALL: [Rule; 7] = [Rule::None, Rule::Lower, Rule::Pascal, Rule::Camel, Rule::Snake, Rule::Screaming, Rule::Kebab];
    pub fn attr_text(self) -> Option<&'static str> {
        match self {
            Rule::None => None,
            Rule::Lower => Some("lowercase"),
            Rule::Pascal => Some("PascalCase"),
            Rule::Camel => Some("camelCase"),
            Rule::Snake => Some("snake_case"),
            Rule::Screaming => Some("SCREAMING_SNAKE_CASE"),
            Rule::Kebab => Some("kebab-case"),
        }
    }
    /// Documented case rules applied to a snake_case field name (written from the rule names,
    /// not from ident_case's code).
    pub fn field(self, name: &str) -> String {
        let words: Vec<&str> = name.split('_').filter(|w| !w.is_empty()).collect();
        let cap = |w: &str| -> String {
            let mut c = w.chars();
            match c.next() {
                Some(f) => f.to_uppercase().collect::<String>() + c.as_str(),
                None => String::new(),
            }
        };
        match self {
            Rule::None | Rule::Snake | Rule::Lower => name.to_string(),
            Rule::Pascal => words.iter().map(|w| cap(w)).collect(),
            Rule::Camel => {
                let p: String = words.iter().map(|w| cap(w)).collect();
                let mut c = p.chars();
                match c.next() {
                    Some(f) => f.to_lowercase().collect::<String>() + c.as_str(),
                    None => p,
                }
            }
            Rule::Screaming => name.to_uppercase(),
            Rule::Kebab => name.replace('_', "-"),
        }
    }
    /// Case rules applied to a PascalCase variant name.
    pub fn variant(self, name: &str) -> String {
        // split before every uppercase letter
        let mut words: Vec<String> = vec![];
        for ch in name.chars() {
            if ch.is_uppercase() || words.is_empty() {
                words.push(String::new());
            }
            words.last_mut().unwrap().push(ch);
        }
        let lower: Vec<String> = words.iter().map(|w| w.to_lowercase()).collect();
        match self {
            Rule::None | Rule::Pascal => name.to_string(),
            Rule::Lower => name.to_lowercase(),
            Rule::Camel => {
                let mut c = name.chars();
                match c.next() {
                    Some(f) => f.to_lowercase().collect::<String>() + c.as_str(),
                    None => String::new(),
                }
            }
            Rule::Snake => lower.join("_"),
            Rule::Screaming => lower.join("_").to_uppercase(),
            // kebab-case has no underscores: the ones inside a word become dashes too
            Rule::Kebab => lower.join("_").replace('_', "-"),
        }
    }
}

#[derive(Clone, Copy, Debug, PartialEq, Eq, Hash, Serialize, Deserialize, PartialOrd, Ord)]
pub enum Dflt {
    None,
    /// `#[darling(default)]`
    Trait,
    /// `#[darling(default = "path")]`
    Fn,
}

#[derive(Clone, Copy, Debug, PartialEq, Eq, Hash, Serialize, Deserialize, PartialOrd, Ord)]
pub enum Tr {
    None,
    Map,
    AndThen,
}

#[derive(Clone, Copy, Debug, PartialEq, Eq, Hash, Serialize, Deserialize, PartialOrd, Ord)]
pub enum With {
    None,
    Path,
    Closure,
}

#[derive(Clone, Debug, PartialEq, Eq, Hash, Serialize, Deserialize)]
pub enum Ty {
    U32,
    Bool,
    Str,
    OptU32,
    Flag,
    /// nested struct receiver (pool index)
    Struct(usize),
    /// `Box<nested struct>`
    BoxStruct(usize),
    /// enum receiver (pool index)
    Enum(usize),
    /// `HashMap<String, u32>`
    MapU32,
}

#[derive(Clone, Debug, PartialEq, Eq, Hash, Serialize, Deserialize)]
pub struct Field {
    pub rust: String,
    pub ty: Ty,
    pub rename: Option<String>,
    pub dflt: Dflt,
    pub skip: bool,
    /// spelled `skip = false`: the member is parsed like any other
    pub skip_false: bool,
    pub multiple: bool,
    pub flatten: bool,
    pub with: With,
    pub tr: Tr,
}

impl Field {
    pub fn new(rust: &str, ty: Ty) -> Field {
        Field { rust: rust.to_string(), ty, rename: None, dflt: Dflt::None, skip: false, skip_false: false, multiple: false, flatten: false, with: With::None, tr: Tr::None }
    }
    pub fn addressable(&self) -> bool {
        !self.skip && !self.flatten
    }
}

#[derive(Clone, Debug, PartialEq, Eq, Hash, Serialize, Deserialize)]
pub enum Fwd {
    /// no `forward_attrs`, no `attrs` field
    Absent,
    /// bare `forward_attrs`
    All,
    /// `forward_attrs(a, b)`
    Only(Vec<String>),
}

#[derive(Clone, Debug, PartialEq, Eq, Hash, Serialize, Deserialize)]
pub struct StructDecl {
    pub tr8: Trait,
    pub rule: Rule,
    pub dflt: Dflt,
    pub from_ident: bool,
    pub tr: Tr,
    /// None = option absent; Some(b) = `allow_unknown_fields` / `= false`
    pub allow_unknown: Option<bool>,
    /// `attributes(..)` (element-level traits)
    pub attrs: Vec<String>,
    pub fwd: Fwd,
    pub fields: Vec<Field>,
    /// `from_word = ..` / `from_none = ..` (FromMeta only)
    pub from_word: bool,
    pub from_none: bool,
    /// `supports(..)` words (FromDeriveInput / FromVariant)
    pub supports: Option<Vec<String>>,
    /// magic fields present (names), element-level traits
    pub magic: Vec<String>,
}

impl StructDecl {
    pub fn new(tr8: Trait, fields: Vec<Field>) -> StructDecl {
        StructDecl {
            tr8,
            rule: Rule::None,
            dflt: Dflt::None,
            from_ident: false,
            tr: Tr::None,
            allow_unknown: None,
            attrs: if tr8.element_level() { vec!["a".to_string()] } else { vec![] },
            fwd: Fwd::Absent,
            fields,
            from_word: false,
            from_none: false,
            supports: None,
            magic: vec![],
        }
    }
    pub fn eff_name(&self, f: &Field) -> String {
        match &f.rename {
            Some(r) => r.clone(),
            None => self.rule.field(&f.rust),
        }
    }
    pub fn allows_unknown(&self) -> bool {
        self.allow_unknown.unwrap_or(false)
    }
    pub fn has_container_default(&self) -> bool {
        self.dflt != Dflt::None || self.from_ident
    }
}

#[derive(Clone, Debug, PartialEq, Eq, Hash, Serialize, Deserialize)]
pub enum VBody {
    Unit,
    Newtype(Ty),
    Struct(Vec<Field>),
}

#[derive(Clone, Debug, PartialEq, Eq, Hash, Serialize, Deserialize)]
pub struct Variant {
    pub rust: String,
    pub rename: Option<String>,
    pub skip: bool,
    /// None, Some(true) = `word`, Some(false) = `word = false`
    pub word: Option<bool>,
    pub body: VBody,
}

#[derive(Clone, Debug, PartialEq, Eq, Hash, Serialize, Deserialize)]
pub struct EnumDecl {
    /// None = no rename_all (snake_case default for enums)
    pub rule: Option<Rule>,
    pub from_word: bool,
    pub from_none: bool,
    pub allow_unknown: Option<bool>,
    pub variants: Vec<Variant>,
}

impl EnumDecl {
    pub fn eff_rule(&self) -> Rule {
        self.rule.unwrap_or(Rule::Snake)
    }
    pub fn eff_name(&self, v: &Variant) -> String {
        match &v.rename {
            Some(r) => r.clone(),
            None => self.eff_rule().variant(&v.rust),
        }
    }
}

#[derive(Clone, Debug, PartialEq, Eq, Hash, Serialize, Deserialize)]
pub enum Decl {
    Struct(StructDecl),
    Enum(EnumDecl),
}

/// A root receiver plus the pool of receivers it nests. `decls[root]` is what is parsed.
#[derive(Clone, Debug, PartialEq, Eq, Hash, Serialize, Deserialize)]
pub struct Program {
    pub decls: Vec<Decl>,
    pub root: usize,
    /// free-text tag of the family this program was generated for (evidence only)
    pub family: String,
}

impl Program {
    pub fn st(&self, i: usize) -> &StructDecl {
        match &self.decls[i] {
            Decl::Struct(s) => s,
            _ => panic!("decl {i} is not a struct"),
        }
    }
    pub fn en(&self, i: usize) -> &EnumDecl {
        match &self.decls[i] {
            Decl::Enum(e) => e,
            _ => panic!("decl {i} is not an enum"),
        }
    }
    pub fn root_trait(&self) -> Trait {
        match &self.decls[self.root] {
            Decl::Struct(s) => s.tr8,
            Decl::Enum(_) => Trait::FromMeta,
        }
    }
}

/// Structural value of a parsed receiver (what `ToVal` renders and the interpreter predicts).
#[derive(Clone, Debug, PartialEq, Eq, Hash, Serialize, Deserialize)]
pub enum Val {
    U(u64),
    B(bool),
    S(String),
    None,
    Some(Box<Val>),
    List(Vec<Val>),
    Rec(Vec<(String, Val)>),
    /// enum variant (Rust name) with payload
    Var(String, Box<Val>),
    Map(Vec<(String, Val)>),
    Unit,
    /// token text of a syntax-valued member (magic fields)
    Tok(String),
}

impl Val {
    pub fn some(v: Val) -> Val {
        Val::Some(Box::new(v))
    }
}

// Visible constants of the generated helper functions: which rule fired is visible in the value.
pub const WITH_ADD: u64 = 100;
pub const FIELD_DEFAULT_FN: u64 = 7777;
pub const CONTAINER_FN_BASE: u64 = 5000;
pub const DEFAULT_IMPL_BASE: u64 = 6000;
pub const FROM_IDENT_BASE: u64 = 8000;
/// values of the decoy inherent functions (never observable)
pub const DECOY_BASE: u64 = 3000;
pub const AND_THEN_REJECTS: u64 = 13;
pub fn map_fn(v: u64) -> u64 {
    2 * v + 1
}
pub fn and_then_fn(v: u64) -> u64 {
    3 * v + 2
}
