//! Input IR: attribute items, printing to single-line source with a column table.
use serde::{Deserialize, Serialize};

#[derive(Clone, Debug, PartialEq, Eq, Hash, Serialize, Deserialize)]
pub enum Item {
    /// `name`
    Word(String),
    /// `name = <value tokens>`
    NV(String, String),
    /// `name(items)`
    List(String, Vec<Item>),
    /// bare literal tokens
    Lit(String),
}

impl Item {
    pub fn name(&self) -> Option<&str> {
        match self {
            Item::Word(n) | Item::NV(n, _) | Item::List(n, _) => Some(n),
            Item::Lit(_) => None,
        }
    }
    pub fn word(n: &str) -> Item {
        Item::Word(n.to_string())
    }
    pub fn nv(n: &str, v: &str) -> Item {
        Item::NV(n.to_string(), v.to_string())
    }
    pub fn list(n: &str, items: Vec<Item>) -> Item {
        Item::List(n.to_string(), items)
    }
    pub fn lit(v: &str) -> Item {
        Item::Lit(v.to_string())
    }
}

/// Half-open column range on the single source line.
pub type Cols = (usize, usize);

/// A printed item: the item plus where it, its name and its value landed.
#[derive(Clone, Debug, PartialEq, Eq)]
pub struct PItem {
    pub item: Item,
    pub span: Cols,
    pub name_span: Option<Cols>,
    pub value_span: Option<Cols>,
    pub kids: Vec<PItem>,
}

pub fn print_item(it: &Item, out: &mut String) -> PItem {
    let start = out.chars().count();
    match it {
        Item::Word(n) => {
            out.push_str(n);
            let end = out.chars().count();
            PItem { item: it.clone(), span: (start, end), name_span: Some((start, end)), value_span: None, kids: vec![] }
        }
        Item::NV(n, v) => {
            out.push_str(n);
            let ne = out.chars().count();
            out.push_str(" = ");
            let vs = out.chars().count();
            out.push_str(v);
            let end = out.chars().count();
            PItem { item: it.clone(), span: (start, end), name_span: Some((start, ne)), value_span: Some((vs, end)), kids: vec![] }
        }
        Item::List(n, items) => {
            out.push_str(n);
            let ne = out.chars().count();
            out.push('(');
            let kids = print_items(items, out);
            out.push(')');
            let end = out.chars().count();
            PItem { item: it.clone(), span: (start, end), name_span: Some((start, ne)), value_span: None, kids }
        }
        Item::Lit(v) => {
            out.push_str(v);
            let end = out.chars().count();
            PItem { item: it.clone(), span: (start, end), name_span: None, value_span: Some((start, end)), kids: vec![] }
        }
    }
}

pub fn print_items(items: &[Item], out: &mut String) -> Vec<PItem> {
    let mut v = vec![];
    for (i, it) in items.iter().enumerate() {
        if i > 0 {
            out.push_str(", ");
        }
        v.push(print_item(it, out));
    }
    v
}

pub fn items_text(items: &[Item]) -> String {
    let mut s = String::new();
    print_items(items, &mut s);
    s
}

/// One attribute on an element.
#[derive(Clone, Debug, PartialEq, Eq, Hash, Serialize, Deserialize)]
pub enum Attr {
    /// `#[name(items)]`
    List(String, Vec<Item>),
    /// `#[name]`
    Bare(String),
    /// `#[name()]`
    Empty(String),
    /// anything else, printed verbatim (including `#[` and `]`)
    Raw(String),
}

#[derive(Clone, Debug, PartialEq, Eq)]
pub enum PAttr {
    List { name: String, span: Cols, items: Vec<PItem> },
    Other { text: String, span: Cols },
}

pub fn print_attrs(attrs: &[Attr], out: &mut String) -> Vec<PAttr> {
    let mut v = vec![];
    for a in attrs {
        let start = out.chars().count();
        match a {
            Attr::List(n, items) => {
                out.push_str("#[");
                out.push_str(n);
                out.push('(');
                let items = print_items(items, out);
                out.push_str(")]");
                v.push(PAttr::List { name: n.clone(), span: (start, out.chars().count()), items });
            }
            Attr::Bare(n) => {
                out.push_str(&format!("#[{n}]"));
                v.push(PAttr::Other { text: format!("#[{n}]"), span: (start, out.chars().count()) });
            }
            Attr::Empty(n) => {
                out.push_str(&format!("#[{n}()]"));
                v.push(PAttr::Other { text: format!("#[{n}()]"), span: (start, out.chars().count()) });
            }
            Attr::Raw(t) => {
                out.push_str(t);
                v.push(PAttr::Other { text: t.clone(), span: (start, out.chars().count()) });
            }
        }
        out.push(' ');
    }
    v
}
