pub fn hi(){}
