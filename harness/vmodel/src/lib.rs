//! Pure model code (no darling dependency): declaration and input IRs, printers, the
//! reference interpreter, corpus enumerations.
pub mod corpus;
pub mod input;
pub mod interp;
pub mod ir;
pub mod print;
