//! Printers: receiver declarations -> Rust source (with `ToVal` impls), and element source
//! text around a list of attributes for each trait.
use crate::ir::*;

/// Options of one element written as `#[darling(..)]` attributes. Elements with two or more
/// options get them stacked over two attributes for every other declaration (decided by a
/// hash of the option text), so that both spellings occur throughout the corpora.
/// `map` / `and_then` / `default` accept their path bare or quoted (`map = "path::to::f"` is the
/// spelling the README documents); every other declaration uses the quoted one. (`with` takes a
/// path or a closure expression and is always written bare.)
fn path_opt(name: &str, path: &str, quoted: bool) -> String {
    if quoted {
        format!("{name} = \"{path}\"")
    } else {
        format!("{name} = {path}")
    }
}

fn darling_attrs(opts: &[String], sep: &str) -> String {
    if opts.is_empty() {
        return String::new();
    }
    let h: usize = opts.iter().flat_map(|o| o.bytes()).fold(7usize, |a, b| a.wrapping_mul(31).wrapping_add(b as usize));
    if opts.len() >= 2 && h % 2 == 0 {
        let cut = 1 + h / 2 % (opts.len() - 1);
        format!("#[darling({})]{sep}#[darling({})]{sep}", opts[..cut].join(", "), opts[cut..].join(", "))
    } else {
        format!("#[darling({})]{sep}", opts.join(", "))
    }
}

pub fn ty_name(prog: &Program, ty: &Ty) -> String {
    let _ = prog;
    match ty {
        Ty::U32 => "u32".into(),
        Ty::Bool => "bool".into(),
        Ty::Str => "String".into(),
        Ty::OptU32 => "Option<u32>".into(),
        Ty::Flag => "darling::util::Flag".into(),
        Ty::Struct(n) => format!("R{n}"),
        Ty::BoxStruct(n) => format!("Box<R{n}>"),
        Ty::Enum(n) => format!("R{n}"),
        Ty::MapU32 => "std::collections::HashMap<String, u32>".into(),
    }
}

fn field_ty(prog: &Program, f: &Field) -> String {
    let t = ty_name(prog, &f.ty);
    if f.multiple {
        format!("Vec<{t}>")
    } else {
        t
    }
}

/// Rust expression constructing the synthesized value with base `base` (mirrors
/// `Interp::synth_field`).
fn synth_expr(_prog: &Program, f: &Field, i: usize, base: u64) -> String {
    let one = match &f.ty {
        Ty::U32 => format!("{}", base + i as u64),
        Ty::OptU32 => format!("Some({})", base + i as u64),
        Ty::Bool => "true".into(),
        Ty::Str => format!("String::from(\"d{}\")", base + i as u64),
        Ty::Flag => "darling::util::Flag::present()".into(),
        Ty::Struct(n) => format!("<R{n} as Default>::default()"),
        Ty::BoxStruct(n) => format!("Box::new(<R{n} as Default>::default())"),
        Ty::Enum(n) => format!("<R{n} as Default>::default()"),
        Ty::MapU32 => format!("[(String::from(\"d\"), {}u32)].into_iter().collect()", base + i as u64),
    };
    if f.multiple {
        format!("vec![{one}]")
    } else {
        one
    }
}

fn synth_struct_expr(prog: &Program, n: usize, base: u64) -> String {
    let s = prog.st(n);
    let inits: Vec<String> = s.fields.iter().enumerate().map(|(i, f)| format!("{}: {}", f.rust, synth_expr(prog, f, i, base))).collect();
    format!("R{n} {{ {} }}", inits.join(", "))
}

fn field_attr(prog: &Program, n: usize, i: usize, f: &Field) -> String {
    let mut opts: Vec<String> = vec![];
    if let Some(r) = &f.rename {
        opts.push(format!("rename = \"{r}\""));
    }
    match f.dflt {
        Dflt::None => {}
        Dflt::Trait => opts.push("default".into()),
        Dflt::Fn => opts.push(path_opt("default", &format!("fdef_{n}_{i}"), (n + i) % 2 == 0)),
    }
    if f.skip {
        opts.push("skip".into());
    }
    if f.skip_false {
        opts.push("skip = false".into());
    }
    if f.multiple {
        opts.push("multiple".into());
    }
    if f.flatten {
        opts.push("flatten".into());
    }
    match f.with {
        With::None => {}
        With::Path if f.ty == Ty::OptU32 => opts.push(path_opt("with", "vrt::support::with_opt_u32", false)),
        With::Closure if f.ty == Ty::OptU32 => opts.push("with = |m| vrt::support::with_opt_u32(m)".into()),
        With::Path => opts.push(path_opt("with", "vrt::support::with_u32", false)),
        With::Closure => opts.push("with = |m| vrt::support::with_u32(m)".into()),
    }
    match f.tr {
        Tr::None => {}
        Tr::Map => opts.push(path_opt("map", "vrt::support::map_u32", (n + i) % 2 == 0)),
        Tr::AndThen => opts.push(path_opt("and_then", "vrt::support::and_then_u32", (n + i) % 2 == 0)),
    }
    let _ = prog;
    if opts.is_empty() {
        String::new()
    } else {
        darling_attrs(&opts, " ")
    }
}

fn field_default_fn(prog: &Program, n: usize, i: usize, f: &Field) -> String {
    let ty = field_ty(prog, f);
    let body = match &f.ty {
        Ty::U32 | Ty::OptU32 => {
            let one = if f.ty == Ty::U32 { format!("{FIELD_DEFAULT_FN}") } else { format!("Some({FIELD_DEFAULT_FN})") };
            if f.multiple {
                format!("vec![{one}]")
            } else {
                one
            }
        }
        _ => synth_expr(prog, f, i, FIELD_DEFAULT_FN),
    };
    format!("fn fdef_{n}_{i}() -> {ty} {{ {body} }}\n")
}

fn to_val_body(fields: &[Field], access: &dyn Fn(&Field) -> String) -> String {
    let parts: Vec<String> = fields.iter().map(|f| format!("(String::from(\"{}\"), vrt::ToVal::to_val({}))", f.rust, access(f))).collect();
    format!("vmodel::ir::Val::Rec(vec![{}])", parts.join(", "))
}

pub fn print_struct(prog: &Program, n: usize, out: &mut String) {
    let s = prog.st(n);
    let mut copts: Vec<String> = vec![];
    if let Some(r) = s.rule.attr_text() {
        copts.push(format!("rename_all = \"{r}\""));
    }
    match s.dflt {
        Dflt::None => {}
        Dflt::Trait => copts.push("default".into()),
        Dflt::Fn => copts.push(path_opt("default", &format!("cdef_{n}"), n % 2 == 0)),
    }
    if s.from_ident {
        copts.push("from_ident".into());
    }
    match s.tr {
        Tr::None => {}
        Tr::Map => copts.push(path_opt("map", &format!("cmap_{n}"), n % 2 == 1)),
        Tr::AndThen => copts.push(path_opt("and_then", &format!("cand_{n}"), n % 2 == 1)),
    }
    match s.allow_unknown {
        None => {}
        Some(true) => copts.push("allow_unknown_fields".into()),
        Some(false) => copts.push("allow_unknown_fields = false".into()),
    }
    if s.tr8.element_level() && !s.attrs.is_empty() {
        copts.push(format!("attributes({})", s.attrs.join(", ")));
    }
    match &s.fwd {
        Fwd::Absent => {}
        Fwd::All => copts.push("forward_attrs".into()),
        Fwd::Only(v) => copts.push(format!("forward_attrs({})", v.join(", "))),
    }
    if s.from_word {
        copts.push(format!("from_word = fw_{n}"));
    }
    if s.from_none {
        copts.push(format!("from_none = fn_{n}"));
    }
    if let Some(words) = &s.supports {
        copts.push(format!("supports({})", words.join(", ")));
    }
    out.push_str(&format!("#[derive(Debug, darling::{})]\n", s.tr8.name()));
    if !copts.is_empty() {
        out.push_str(&darling_attrs(&copts, "\n"));
    }
    out.push_str(&format!("pub struct R{n} {{\n"));
    for m in &s.magic {
        let ty = match m.as_str() {
            "ident" => {
                if s.tr8 == Trait::FromField {
                    "Option<syn::Ident>"
                } else {
                    "syn::Ident"
                }
            }
            "vis" => "syn::Visibility",
            "ty" => "syn::Type",
            "generics" => "syn::Generics",
            "attrs" => "Vec<syn::Attribute>",
            "discriminant" => "Option<syn::Expr>",
            "bounds" => "Vec<syn::TypeParamBound>",
            "default" => "Option<syn::Type>",
            "data" => "darling::ast::Data<darling::util::Ignored, darling::util::Ignored>",
            "fields" => "darling::ast::Fields<darling::util::Ignored>",
            other => panic!("unknown magic field {other}"),
        };
        out.push_str(&format!("    pub {m}: {ty},\n"));
    }
    for (i, f) in s.fields.iter().enumerate() {
        out.push_str(&format!("    {}pub {}: {},\n", field_attr(prog, n, i, f), f.rust, field_ty(prog, f)));
    }
    out.push_str("}\n");
    for (i, f) in s.fields.iter().enumerate() {
        if f.dflt == Dflt::Fn {
            out.push_str(&field_default_fn(prog, n, i, f));
        }
    }
    let magic_init: String = s
        .magic
        .iter()
        .map(|m| match m.as_str() {
            "ident" if s.tr8 == Trait::FromField => "ident: None, ".to_string(),
            "ident" => "ident: syn::Ident::new(\"synth\", darling::export::Span::call_site()), ".to_string(),
            "vis" => "vis: syn::Visibility::Inherited, ".to_string(),
            "ty" => "ty: syn::parse_str(\"()\").unwrap(), ".to_string(),
            "data" => "data: darling::ast::Data::Struct(darling::ast::Fields::new(darling::ast::Style::Unit, vec![])), ".to_string(),
            "fields" => "fields: darling::ast::Fields::new(darling::ast::Style::Unit, vec![]), ".to_string(),
            other => format!("{other}: Default::default(), "),
        })
        .collect();
    let synth = |base: u64| -> String {
        let e = synth_struct_expr(prog, n, base);
        // splice magic initialisers in
        e.replacen("{ ", &format!("{{ {magic_init}"), 1)
    };
    out.push_str(&format!("impl Default for R{n} {{ fn default() -> Self {{ {} }} }}\n", synth(DEFAULT_IMPL_BASE)));
    // decoys: inherent functions named like the trait methods generated code calls, with
    // compatible signatures and other values - generated code must never resolve to them
    {
        let d = synth(DECOY_BASE);
        out.push_str(&format!(
            "#[allow(dead_code, clippy::should_implement_trait)]\nimpl R{n} {{\n    pub fn default() -> Self {{ {d} }}\n    pub fn from_meta(_: &syn::Meta) -> darling::Result<Self> {{ Ok({d}) }}\n    pub fn from_list(_: &[darling::ast::NestedMeta]) -> darling::Result<Self> {{ Ok({d}) }}\n    pub fn from_nested_meta(_: &darling::ast::NestedMeta) -> darling::Result<Self> {{ Ok({d}) }}\n    pub fn from_word() -> darling::Result<Self> {{ Ok({d}) }}\n    pub fn from_none() -> Option<Self> {{ Some({d}) }}\n    pub fn from_string(_: &str) -> darling::Result<Self> {{ Ok({d}) }}\n    pub fn from_value(_: &syn::Lit) -> darling::Result<Self> {{ Ok({d}) }}\n    pub fn from_expr(_: &syn::Expr) -> darling::Result<Self> {{ Ok({d}) }}\n    pub fn from_derive_input(_: &syn::DeriveInput) -> darling::Result<Self> {{ Ok({d}) }}\n    pub fn from_field(_: &syn::Field) -> darling::Result<Self> {{ Ok({d}) }}\n    pub fn from_variant(_: &syn::Variant) -> darling::Result<Self> {{ Ok({d}) }}\n    pub fn from_type_param(_: &syn::TypeParam) -> darling::Result<Self> {{ Ok({d}) }}\n    pub fn from_attributes(_: &[syn::Attribute]) -> darling::Result<Self> {{ Ok({d}) }}\n    pub fn from<T>(_: T) -> Self {{ {d} }}\n    pub fn into(self) -> Self {{ {d} }}\n}}\n"
        ));
    }
    if s.dflt == Dflt::Fn {
        out.push_str(&format!("fn cdef_{n}() -> R{n} {{ {} }}\n", synth(CONTAINER_FN_BASE)));
    }
    if s.from_ident {
        // a field's identifier is optional (tuple fields have none)
        let arg = if s.tr8 == Trait::FromField { "Option<syn::Ident>" } else { "syn::Ident" };
        out.push_str(&format!("impl From<{arg}> for R{n} {{ fn from(_: {arg}) -> Self {{ {} }} }}\n", synth(FROM_IDENT_BASE)));
    }
    if s.from_word {
        out.push_str(&format!("fn fw_{n}() -> darling::Result<R{n}> {{ Ok({}) }}\n", synth(9000)));
    }
    if s.from_none {
        out.push_str(&format!("fn fn_{n}() -> Option<R{n}> {{ Some({}) }}\n", synth(9500)));
    }
    let first_u32 = s.fields.iter().find(|f| f.ty == Ty::U32 && !f.multiple).map(|f| f.rust.clone());
    match (s.tr, &first_u32) {
        (Tr::Map, Some(f)) => out.push_str(&format!("fn cmap_{n}(mut r: R{n}) -> R{n} {{ r.{f} = vrt::support::map_u32(r.{f}); r }}\n")),
        (Tr::Map, None) => out.push_str(&format!("fn cmap_{n}(r: R{n}) -> R{n} {{ r }}\n")),
        (Tr::AndThen, Some(f)) => out.push_str(&format!("fn cand_{n}(mut r: R{n}) -> darling::Result<R{n}> {{ r.{f} = vrt::support::and_then_u32(r.{f})?; Ok(r) }}\n")),
        (Tr::AndThen, None) => out.push_str(&format!("fn cand_{n}(r: R{n}) -> darling::Result<R{n}> {{ Ok(r) }}\n")),
        (Tr::None, _) => {}
    }
    let body = to_val_body(&s.fields, &|f| format!("&self.{}", f.rust));
    let body = if s.magic.iter().any(|m| m == "attrs") {
        // the forwarded attributes are part of the observable value
        body.replacen("vec![", "vec![(String::from(\"attrs\"), vrt::ToVal::to_val(&self.attrs)), ", 1)
    } else {
        body
    };
    out.push_str(&format!("impl vrt::ToVal for R{n} {{ fn to_val(&self) -> vmodel::ir::Val {{ {body} }} }}\n"));
}

pub fn print_enum(prog: &Program, n: usize, out: &mut String) {
    let e = prog.en(n);
    let mut copts: Vec<String> = vec![];
    if let Some(r) = e.rule {
        if let Some(t) = r.attr_text() {
            copts.push(format!("rename_all = \"{t}\""));
        }
    }
    if e.from_word {
        copts.push(format!("from_word = fw_{n}"));
    }
    if e.from_none {
        copts.push(format!("from_none = fn_{n}"));
    }
    match e.allow_unknown {
        None => {}
        Some(true) => copts.push("allow_unknown_fields".into()),
        Some(false) => copts.push("allow_unknown_fields = false".into()),
    }
    out.push_str("#[derive(Debug, darling::FromMeta)]\n");
    if !copts.is_empty() {
        out.push_str(&darling_attrs(&copts, "\n"));
    }
    out.push_str(&format!("pub enum R{n} {{\n"));
    for (vi, v) in e.variants.iter().enumerate() {
        let mut vopts: Vec<String> = vec![];
        if let Some(r) = &v.rename {
            vopts.push(format!("rename = \"{r}\""));
        }
        if v.skip {
            vopts.push("skip".into());
        }
        match v.word {
            None => {}
            Some(true) => vopts.push("word".into()),
            Some(false) => vopts.push("word = false".into()),
        }
        let attr = darling_attrs(&vopts, " ");
        match &v.body {
            VBody::Unit => out.push_str(&format!("    {attr}{},\n", v.rust)),
            VBody::Newtype(ty) => out.push_str(&format!("    {attr}{}({}),\n", v.rust, ty_name(prog, ty))),
            VBody::Struct(fields) => {
                out.push_str(&format!("    {attr}{} {{ ", v.rust));
                for (i, f) in fields.iter().enumerate() {
                    out.push_str(&format!("{}{}: {}, ", field_attr(prog, n, 100 * (vi + 1) + i, f), f.rust, field_ty(prog, f)));
                }
                out.push_str("},\n");
            }
        }
    }
    out.push_str("}\n");
    if let Some(v) = e.variants.iter().find(|v| !v.skip && v.body == VBody::Unit) {
        out.push_str(&format!("impl Default for R{n} {{ fn default() -> Self {{ R{n}::{} }} }}\n", v.rust));
        if e.from_word {
            out.push_str(&format!("fn fw_{n}() -> darling::Result<R{n}> {{ Ok(R{n}::{}) }}\n", v.rust));
        }
        if e.from_none {
            out.push_str(&format!("fn fn_{n}() -> Option<R{n}> {{ Some(R{n}::{}) }}\n", v.rust));
        }
    }
    out.push_str(&format!("impl vrt::ToVal for R{n} {{ fn to_val(&self) -> vmodel::ir::Val {{ match self {{\n"));
    for v in &e.variants {
        match &v.body {
            VBody::Unit => out.push_str(&format!("    R{n}::{} => vmodel::ir::Val::Var(String::from(\"{}\"), Box::new(vmodel::ir::Val::Unit)),\n", v.rust, v.rust)),
            VBody::Newtype(_) => out.push_str(&format!("    R{n}::{}(x) => vmodel::ir::Val::Var(String::from(\"{}\"), Box::new(vrt::ToVal::to_val(x))),\n", v.rust, v.rust)),
            VBody::Struct(fields) => {
                let names: Vec<String> = fields.iter().map(|f| f.rust.clone()).collect();
                let body = to_val_body(fields, &|f| f.rust.clone());
                out.push_str(&format!("    R{n}::{} {{ {} }} => vmodel::ir::Val::Var(String::from(\"{}\"), Box::new({body})),\n", v.rust, names.join(", "), v.rust));
            }
        }
    }
    out.push_str("} } }\n");
    // field default fns of struct variants
    for (vi, v) in e.variants.iter().enumerate() {
        if let VBody::Struct(fields) = &v.body {
            for (i, f) in fields.iter().enumerate() {
                if f.dflt == Dflt::Fn {
                    out.push_str(&field_default_fn(prog, n, 100 * (vi + 1) + i, f));
                }
            }
        }
    }
}

/// Source of one program as a module `p<idx>`; the module imports nothing.
pub fn print_program(prog: &Program, idx: usize) -> String {
    let mut out = String::new();
    out.push_str(&format!("pub mod p{idx} {{\n"));
    for n in 0..prog.decls.len() {
        match &prog.decls[n] {
            Decl::Struct(_) => print_struct(prog, n, &mut out),
            Decl::Enum(_) => print_enum(prog, n, &mut out),
        }
    }
    out.push_str("}\n");
    out
}

/// The element source for an element-level trait, around already printed attributes.
/// Returns (prefix, suffix): `prefix + attrs + suffix` is a DeriveInput.
pub fn element_wrapper(t: Trait) -> (&'static str, &'static str) {
    match t {
        Trait::FromMeta => ("", "struct S;"),
        Trait::FromDeriveInput | Trait::FromAttributes => ("", "pub struct Foo<T: Clone> { pub x: T, y: u8 }"),
        Trait::FromField => ("struct W { ", "pub foo: Vec<u8>, other: u8 }"),
        Trait::FromVariant => ("enum W { ", "Foo = 3, Other }"),
        Trait::FromTypeParam => ("struct W<", "T: Clone + Send = u8, U>(T, U);"),
    }
}
