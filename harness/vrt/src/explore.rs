//! The explorer linked into every generated corpus crate: enumerates item sequences for each
//! program, runs the real derived parser, compares with the reference interpreter.
use crate::report::{Tally, Violation};
use crate::run::{match_leaves, Obs, Runner};
use rayon::prelude::*;
use serde_json::json;
use vmodel::corpus;
use vmodel::input::{print_item, Item, PItem};
use vmodel::interp::{Expect, Interp, Msg, Region};
use vmodel::ir::*;
use vmodel::print::element_wrapper;

pub struct Entry {
    pub prog: Program,
    /// `from_none` runner for FromMeta roots
    pub aux: Option<Runner>,
    /// root entry point (from_meta for FromMeta roots, the trait's entry for element-level)
    pub run: Runner,
}

/// Builds the source line and the expectation for one item sequence.
pub fn build_case(prog: &Program, items: &[Item]) -> (String, Expect) {
    let ip = Interp::new(prog);
    let t = prog.root_trait();
    let (prefix, suffix) = element_wrapper(t);
    let mut src = String::from(prefix);
    src.push_str("#[");
    let name = if t == Trait::FromMeta { "x".to_string() } else { prog.st(prog.root).attrs[0].clone() };
    let root_item = Item::List(name, items.to_vec());
    let p: PItem = print_item(&root_item, &mut src);
    src.push_str("] ");
    src.push_str(suffix);
    let exp = if t == Trait::FromMeta {
        match &prog.decls[prog.root] {
            Decl::Struct(_) => ip.conv_ty(&Ty::Struct(prog.root), &p),
            Decl::Enum(_) => ip.conv_enum(prog.root, &p),
        }
    } else {
        ip.struct_from_list(prog.root, &p.kids, Region::Root)
    };
    (src, exp)
}

fn msg_kind(m: &Msg) -> &'static str {
    match m {
        Msg::Unknown(_) => "leaf_unknown",
        Msg::Duplicate(_) => "leaf_duplicate",
        Msg::Missing(_) => "leaf_missing",
        Msg::Format(_) => "leaf_format",
        Msg::UnknownValue(_) => "leaf_unknown_value",
        Msg::UnexpectedType(_) => "leaf_unexpected_type",
        Msg::Custom(_) => "leaf_custom",
        Msg::TooFew(_) => "leaf_too_few",
        Msg::TooMany(_) => "leaf_too_many",
        Msg::Any => "leaf_any",
    }
}

/// Compares one observation with its expectation; reports the violations that belong to `prop`.
pub fn judge(prop: &str, idx: usize, prog: &Program, items: &[Item], src: &str, exp: &Expect, obs: &Obs, t: &mut Tally) {
    t.evaluations += 1;
    t.traces += 1;
    let mut complaints: Vec<(&'static str, String)> = vec![];
    match (obs, exp.is_ok()) {
        (Obs::NoParse(e), _) => {
            t.hit("generator_unparseable");
            complaints.push(("ANY", format!("machinery: source does not parse: {e}")));
        }
        (Obs::Panic(p), _) => complaints.push(("PANIC", format!("panicked: {p}"))),
        (Obs::Ok(v), true) => {
            t.hit("expect_ok");
            if Some(v) != exp.value.as_ref() {
                complaints.push(("C01", format!("value {:?}, expected {:?}", v, exp.value.as_ref().unwrap())));
            }
        }
        (Obs::Ok(v), false) => {
            t.hit("expect_err");
            complaints.push(("C02", format!("accepted (as {:?}) although the input has {} mistake(s): {:?}", v, exp.leaves.len(), exp.leaves)));
        }
        (Obs::Err { leaves, .. }, true) => {
            t.hit("expect_ok");
            let ds: Vec<&String> = leaves.iter().map(|l| &l.display).collect();
            complaints.push(("C01", format!("mistake-free input rejected: {ds:?}")));
            complaints.push(("C02", format!("error invented for a mistake-free input: {ds:?}")));
        }
        (Obs::Err { leaves, len, diag_spans }, false) => {
            t.hit("expect_err");
            for l in &exp.leaves {
                t.hit(msg_kind(&l.msg));
            }
            t.class(&format!("leaves={}", exp.leaves.len().min(9)));
            let (missing, extra, span_complaints) = match_leaves(&exp.leaves, leaves);
            if !missing.is_empty() || !extra.is_empty() {
                let ex: Vec<&String> = extra.iter().map(|l| &l.display).collect();
                complaints.push(("C02", format!("leaves differ: not reported {missing:?}; unexpected {ex:?}")));
            } else {
                if *len != exp.leaves.len() {
                    complaints.push(("C02", format!("len() = {len}, {} mistakes", exp.leaves.len())));
                }
                for c in span_complaints {
                    complaints.push(("C03", c));
                }
                // diagnostics keep each leaf's span
                if diag_spans.len() != leaves.len() {
                    complaints.push(("C03", format!("{} compile_error! for {} leaves", diag_spans.len(), leaves.len())));
                } else {
                    for (i, (d, l)) in diag_spans.iter().zip(leaves).enumerate() {
                        if l.span.is_some() && *d != l.span {
                            complaints.push(("C03", format!("diagnostic {i} is at {d:?} but the leaf `{}` is at {:?}", l.display, l.span)));
                        }
                    }
                }
            }
        }
    }
    if !exp.is_ok() {
        t.nontrivial += 1;
    }
    for (class, msg) in complaints {
        let mine = match class {
            "ANY" => true,
            "PANIC" => true,
            c => c == prop || (prop == "C09" && (c == "C01" || c == "C02")),
        };
        if mine {
            t.violate(Violation {
                key: format!("{prop} family=[{}] src=`{src}` :: {msg}", prog.family),
                what: format!("[{}] `{src}`: {msg}", prog.family),
                case: json!({"engine": "corpus", "program": idx, "items": items, "src": src}),
                detail: json!({"expected_value": format!("{:?}", exp.value), "expected_leaves": format!("{:?}", exp.leaves), "observed": format!("{obs:?}")}),
            });
        }
    }
}

fn explore_program(prop: &str, idx: usize, e: &Entry, first: Option<usize>, alphabet: &[Item], maxlen: usize, t: &mut Tally) {
    // `first` = None: the empty sequence only; Some(i): all sequences starting with symbol i
    let eval = |seq: &[usize], t: &mut Tally| {
        let items: Vec<Item> = seq.iter().map(|i| alphabet[*i].clone()).collect();
        let (src, exp) = build_case(&e.prog, &items);
        if prop == "C01" && !exp.is_ok() {
            // C01 quantifies over mistake-free inputs only (repeats of a non-`multiple` name, or
            // an absent required member, make the sequence C02's business)
            t.hit("not_mistake_free_skipped");
            return;
        }
        if prop == "C01" {
            t.nontrivial += 1;
            // the same items split over two attributes (element-level traits)
            if e.prog.root_trait() != Trait::FromMeta && items.len() >= 2 {
                let name = e.prog.st(e.prog.root).attrs[0].clone();
                let (prefix, suffix) = element_wrapper(e.prog.root_trait());
                let cut = items.len() / 2;
                let src2 = format!("{prefix}#[{name}({})] #[{name}({})] {suffix}", vmodel::input::items_text(&items[..cut]), vmodel::input::items_text(&items[cut..]));
                let obs2 = (e.run)(&src2);
                judge(prop, idx, &e.prog, &items, &src2, &exp, &obs2, t);
            }
            // an empty attribute of the receiver's name in front contributes nothing
            if e.prog.root_trait() != Trait::FromMeta && !items.is_empty() && items.len() < maxlen.max(2) {
                let name = e.prog.st(e.prog.root).attrs[0].clone();
                let (prefix, suffix) = element_wrapper(e.prog.root_trait());
                let src3 = format!("{prefix}#[{name}()] #[{name}({})] #[{name}()] {suffix}", vmodel::input::items_text(&items));
                let obs3 = (e.run)(&src3);
                judge(prop, idx, &e.prog, &items, &src3, &exp, &obs3, t);
            }
        }
        let obs = (e.run)(&src);
        judge(prop, idx, &e.prog, &items, &src, &exp, &obs, t);
        // the same items with every value forwarded in an invisible group (what a
        // `macro_rules!` `$e:expr` hands to the macro): same value, same mistakes, same places
        if (seq.len() < maxlen || maxlen <= 2) && src.contains(" = ") {
            let gsrc = format!("{src}{}", crate::run::GROUPED);
            let gobs = (e.run)(&gsrc);
            t.hit("grouped_values_inputs");
            judge(prop, idx, &e.prog, &items, &gsrc, &exp, &gobs, t);
            // ... and in two nested groups, for the shortest sequences
            if seq.len() <= 2 {
                let g2 = format!("{src}{}", crate::run::GROUPED2);
                let o2 = (e.run)(&g2);
                judge(prop, idx, &e.prog, &items, &g2, &exp, &o2, t);
            }
        }
        t.states += 1;
        if !seq.is_empty() {
            t.transitions += 1;
        }
        if t.samples.is_empty() && seq.len() == 2 {
            t.samples.push(json!({"program": e.prog.family, "src": src, "expected_value": format!("{:?}", exp.value), "expected_leaves": format!("{:?}", exp.leaves), "observed": format!("{obs:?}").chars().take(600).collect::<String>()}));
        }
    };
    match first {
        None => eval(&[], t),
        Some(f) => {
            let a = alphabet.len();
            for len in 1..=maxlen {
                let mut seq = vec![0usize; len];
                seq[0] = f;
                loop {
                    eval(&seq, t);
                    let mut k = len;
                    let mut done = false;
                    loop {
                        if k == 1 {
                            done = true;
                            break;
                        }
                        k -= 1;
                        seq[k] += 1;
                        if seq[k] < a {
                            break;
                        }
                        seq[k] = 0;
                    }
                    if done {
                        break;
                    }
                }
            }
        }
    }
}

/// Hostile items for C07: bodies that are token trees but not meta syntax, forms no target
/// expects, numbers beyond every width, deep nesting. Only "no panic" is judged.
pub fn hostile_items(prog: &Program) -> Vec<String> {
    let s = prog.st(prog.root);
    let mut names: Vec<String> = s.fields.iter().map(|f| s.eff_name(f)).filter(|n| !n.contains('-')).collect();
    // names that reach a flatten child / nested levels
    for f in &s.fields {
        if let Ty::Struct(c) | Ty::BoxStruct(c) = &f.ty {
            let child = prog.st(*c);
            if f.flatten {
                names.extend(child.fields.iter().map(|cf| child.eff_name(cf)));
            }
        }
    }
    names.push("zz".into());
    let deep = {
        let mut t = String::from("q");
        for _ in 0..64 {
            t = format!("q({t})");
        }
        t
    };
    let bodies: Vec<String> = vec![
        "(a b)".into(), "(=>)".into(), "(,)".into(), "()".into(), "(x = )".into(), "(\"s\")".into(), "(x(y z))".into(),
        " = \"\"".into(), " = 1234567890123456789012345678901234567890".into(), " = -1".into(), " = 'c'".into(), " = b\"x\"".into(),
        " = [1, 2]".into(), " = |x| x".into(), " = a::b::<c>".into(), " = 1.5e400".into(), "".into(), "(uno)".into(), "(duo)".into(),
        "(tres_x(a b))".into(), "(tres_x(=>))".into(), "(tres_x)".into(), "(duo(a b))".into(), "(k(a b))".into(), "(x(a b))".into(),
        format!("({deep})"), "(inner(a b))".into(), "(inner(x(a b)))".into(), "(uno = 1)".into(), "(uno())".into(),
    ];
    let mut v = vec![];
    for n in &names {
        for b in &bodies {
            v.push(format!("{n}{b}"));
        }
    }
    // long unknown names, ASCII and multi-byte, around 16 / 32 / 64 / 128 / 256 bytes
    for n in [16usize, 21, 22, 32, 33, 64, 65, 128, 129, 256] {
        for unit in ["x", "ü", "名"] {
            v.push(format!("{} = 1", unit.repeat(n)));
            v.push(format!("a{}", unit.repeat(n)));
            v.push(format!("q{}(x = 1)", unit.repeat(n)));
        }
    }
    v.push("\"lit\"".into());
    v.push("1234567890123456789012345678901234567890".into());
    v.push("::a::b = 1".into());
    v.push("r#type = 1".into());
    v.push("crate".into());
    v
}

fn hostile_sweep(idx: usize, e: &Entry, t: &mut Tally) {
    let t8 = e.prog.root_trait();
    let (prefix, suffix) = element_wrapper(t8);
    let name = if t8 == Trait::FromMeta { "x".to_string() } else { e.prog.st(e.prog.root).attrs.first().cloned().unwrap_or_else(|| "a".into()) };
    let items = hostile_items(&e.prog);
    let valid: Vec<Item> = corpus::root_alphabet(&e.prog).into_iter().take(2).collect();
    let mut srcs: Vec<String> = vec![];
    for h in &items {
        srcs.push(format!("{prefix}#[{name}({h})] {suffix}"));
        for v in &valid {
            let vt = vmodel::input::items_text(std::slice::from_ref(v));
            srcs.push(format!("{prefix}#[{name}({vt}, {h})] {suffix}"));
            srcs.push(format!("{prefix}#[{name}({h}, {vt})] {suffix}"));
        }
        // second attribute of the same name, and non-list forms of the attribute itself
        if t8 != Trait::FromMeta {
            srcs.push(format!("{prefix}#[{name}({h})] #[{name}({h})] {suffix}"));
        }
    }
    for whole in ["", " = 5", "[1]", "{a}", "(a b)", "(,)", "(\"x\")", "(x = )", "(=>)"] {
        srcs.push(format!("{prefix}#[{name}{whole}] {suffix}"));
    }
    // every hostile input that has a `name = value` part also with its values forwarded in
    // invisible groups
    let grouped: Vec<String> = srcs.iter().filter(|s| s.contains(" = ")).map(|s| format!("{s}{}", crate::run::GROUPED)).collect();
    srcs.extend(grouped);
    for src in srcs {
        t.evaluations += 1;
        t.hit("hostile_inputs");
        match (e.run)(&src) {
            Obs::Panic(p) => t.violate(Violation {
                key: format!("C07 family=[{}] src=`{src}` :: panicked: {p}", e.prog.family),
                what: format!("[{}] `{src}`: panicked: {p}", e.prog.family),
                case: json!({"engine": "corpus-hostile", "program": idx, "src": src}),
                detail: json!({}),
            }),
            Obs::NoParse(_) => t.hit("hostile_not_an_attribute"),
            Obs::Ok(_) => t.hit("hostile_ok"),
            Obs::Err { .. } => {
                t.hit("hostile_err");
                t.nontrivial += 1;
            }
        }
    }
}

/// Enum roots (C09): every whole-item form, every nested-item sequence up to `maxlen`, and the
/// absent form.
fn explore_enum(prop: &str, idx: usize, e: &Entry, maxlen: usize, t: &mut Tally) {
    let ip = Interp::new(&e.prog);
    let one = |root_item: Item, items_for_case: Vec<Item>, t: &mut Tally| {
        let mut src = String::from("#[");
        let p = print_item(&root_item, &mut src);
        src.push_str("] struct S;");
        let exp = ip.conv_enum(e.prog.root, &p);
        let obs = (e.run)(&src);
        judge(prop, idx, &e.prog, &items_for_case, &src, &exp, &obs, t);
        if src.contains(" = ") {
            // values forwarded in invisible groups: same outcome
            let gsrc = format!("{src}{}", crate::run::GROUPED);
            let gobs = (e.run)(&gsrc);
            t.hit("grouped_values_inputs");
            judge(prop, idx, &e.prog, &items_for_case, &gsrc, &exp, &gobs, t);
        }
        t.states += 1;
        t.transitions += 1;
        match &exp.value {
            Some(Val::Var(n, _)) => t.class(&format!("variant {n}")),
            _ => {}
        }
        if t.samples.is_empty() {
            t.samples.push(json!({"program": e.prog.family, "src": src, "expected_value": format!("{:?}", exp.value), "expected_leaves": format!("{:?}", exp.leaves), "observed": format!("{obs:?}").chars().take(600).collect::<String>()}));
        }
    };
    for f in corpus::enum_root_forms(&e.prog) {
        one(f.clone(), vec![f], t);
    }
    let alpha = corpus::enum_list_alphabet(&e.prog);
    let a = alpha.len();
    one(Item::list("e", vec![]), vec![Item::list("e", vec![])], t);
    for len in 1..=maxlen {
        let mut seq = vec![0usize; len];
        loop {
            let items: Vec<Item> = seq.iter().map(|i| alpha[*i].clone()).collect();
            let root = Item::list("e", items);
            one(root.clone(), vec![root], t);
            let mut k = len;
            let mut done = false;
            loop {
                if k == 0 {
                    done = true;
                    break;
                }
                k -= 1;
                seq[k] += 1;
                if seq[k] < a {
                    break;
                }
                seq[k] = 0;
            }
            if done {
                break;
            }
        }
    }
    // bodies that are token trees but not meta syntax, inside every variant's list form: an
    // error (never a value, never a panic), whatever the variant's shape
    {
        let en = e.prog.en(e.prog.root);
        for v in &en.variants {
            let name = en.eff_name(v);
            if name.contains('-') {
                continue;
            }
            for body in ["a b", "x = ", "=", "x = 1 y", "=>", "x(a b)", "x = 1, , y"] {
                let src = format!("#[e({name}({body}))] struct S;");
                let obs = (e.run)(&src);
                t.evaluations += 1;
                t.traces += 1;
                t.nontrivial += 1;
                let complaint = match &obs {
                    Obs::Err { leaves, .. } if !leaves.is_empty() => None,
                    Obs::NoParse(_) => None, // not an attribute at all
                    Obs::Panic(p) => Some(format!("panicked: {p}")),
                    other => Some(format!("a variant body that is not meta syntax gave {other:?}")),
                };
                if let Some(c) = complaint {
                    t.violate(Violation {
                        key: format!("{prop} family=[{}] src=`{src}` :: {c}", e.prog.family),
                        what: format!("[{}] `{src}`: {c}", e.prog.family),
                        case: json!({"engine": "corpus", "program": idx, "items": [], "src": src}),
                        detail: json!({}),
                    });
                } else {
                    t.hit("malformed_variant_bodies");
                }
            }
        }
    }
    // absent
    if let Some(aux) = e.aux {
        t.evaluations += 1;
        t.traces += 1;
        let want = match ip.from_none(&Ty::Enum(e.prog.root)) {
            Some(v) => Val::some(v),
            None => Val::None,
        };
        match aux("") {
            Obs::Ok(v) if v == want => t.hit("from_none_checked"),
            other => t.violate(Violation {
                key: format!("{prop} family=[{}] from_none :: {other:?} expected {want:?}", e.prog.family),
                what: format!("[{}] from_none() gave {other:?}, expected {want:?}", e.prog.family),
                case: json!({"engine": "corpus", "program": idx, "items": [], "src": "<absent>"}),
                detail: json!({}),
            }),
        }
    }
}

// ------------------------------------------------------------------ C17: suggestions

fn addressable_names(s: &StructDecl) -> Vec<String> {
    s.fields.iter().filter(|f| f.addressable()).map(|f| s.eff_name(f)).collect()
}

/// Candidate lists for an unknown name entering struct `d`: innermost receiver first.
fn candidate_chain(prog: &Program, d: usize) -> Vec<Vec<String>> {
    let mut chain = vec![];
    let mut cur = d;
    loop {
        let s = prog.st(cur);
        chain.push(addressable_names(s));
        match s.fields.iter().find(|f| f.flatten) {
            Some(f) => match &f.ty {
                Ty::Struct(c) | Ty::BoxStruct(c) => cur = *c,
                _ => break,
            },
            None => break,
        }
    }
    chain.reverse();
    chain
}

/// Acceptable suggestions: the candidates with the maximal Jaro-Winkler score, if > 0.8.
fn best_suggestions(name: &str, chain: &[Vec<String>]) -> Vec<String> {
    let mut best = 0.0f64;
    let mut out: Vec<String> = vec![];
    for level in chain {
        for c in level {
            let sc = strsim::jaro_winkler(name, c);
            if sc > 0.8 {
                if sc > best + 1e-12 {
                    best = sc;
                    out = vec![c.clone()];
                } else if (sc - best).abs() <= 1e-12 {
                    out.push(c.clone());
                }
            }
        }
    }
    out
}

fn parse_suggestion(display: &str) -> Option<String> {
    let i = display.find(". Did you mean `")?;
    let rest = &display[i + 16..];
    let j = rest.find("`?")?;
    Some(rest[..j].to_string())
}

fn explore_sugg(idx: usize, e: &Entry, thorough: bool, feature_on: bool, t: &mut Tally) {
    let prog = &e.prog;
    // every name of the program, valid or not
    let mut seeds: Vec<String> = vec![];
    for d in &prog.decls {
        match d {
            Decl::Struct(s) => {
                for f in &s.fields {
                    seeds.push(f.rust.clone());
                    seeds.push(s.eff_name(f));
                }
            }
            Decl::Enum(en) => {
                for v in &en.variants {
                    seeds.push(en.eff_name(v));
                }
            }
        }
    }
    seeds.sort();
    seeds.dedup();
    let mut names: std::collections::BTreeSet<String> = std::collections::BTreeSet::new();
    for s in &seeds {
        let d = if thorough { if s.len() <= 4 { 3 } else { 2 } } else if s.len() <= 4 { 2 } else { 1 };
        names.extend(corpus::edits(s, d));
    }
    // positions: (template with {N}, candidate chain, names that are known there)
    let mut positions: Vec<(String, Vec<Vec<String>>, Vec<String>)> = vec![];
    match &prog.decls[prog.root] {
        Decl::Enum(en) => {
            let cands: Vec<String> = en.variants.iter().filter(|v| !v.skip).map(|v| en.eff_name(v)).collect();
            positions.push(("#[e({N})] struct S;".into(), vec![cands.clone()], cands.clone()));
            positions.push(("#[e({N} = 1)] struct S;".into(), vec![cands.clone()], cands));
            // names inside a struct variant: the variant's own members, and below them the
            // flatten member's chain
            for v in en.variants.iter().filter(|v| !v.skip) {
                if let VBody::Struct(fields) = &v.body {
                    let own: Vec<String> = fields.iter().filter(|f| f.addressable()).map(|f| f.rename.clone().unwrap_or_else(|| f.rust.clone())).collect();
                    let mut chain = match fields.iter().find(|f| f.flatten).map(|f| &f.ty) {
                        Some(Ty::Struct(c)) | Some(Ty::BoxStruct(c)) => candidate_chain(prog, *c),
                        _ => vec![],
                    };
                    chain.push(own);
                    let known: Vec<String> = chain.iter().flatten().cloned().collect();
                    let vn = en.eff_name(v);
                    positions.push((format!("#[e({vn}({{N}} = 1))] struct S;"), chain.clone(), known.clone()));
                    positions.push((format!("#[e({vn}({{N}} = 1, zz9q = 2))] struct S;"), chain.clone(), known.clone()));
                    positions.push((format!("#[e({vn}(zz9q = 2, {{N}} = 1))] struct S;"), chain, known));
                }
            }
        }
        Decl::Struct(_) => {
            let chain = candidate_chain(prog, prog.root);
            let known: Vec<String> = chain.iter().flatten().cloned().collect();
            positions.push(("#[x({N} = 1)] struct S;".into(), chain.clone(), known.clone()));
            positions.push(("#[x({N} = 1, zz9q = 2)] struct S;".into(), chain.clone(), known.clone()));
            // a second unknown name that resembles a name of the outermost receiver: every
            // unknown name is compared with every enclosing level, not only the first one
            if let Some(outer) = chain.last().and_then(|l| l.first()) {
                let second = format!("{outer}q");
                if !known.contains(&second) {
                    positions.push((format!("#[x({second} = 2, {{N}} = 1)] struct S;"), chain.clone(), known.clone()));
                    positions.push((format!("#[x({{N}} = 1, {second} = 2)] struct S;"), chain.clone(), known.clone()));
                }
            }
            let _ = &chain;
            // nested (non-flatten) struct fields anywhere in the root's flatten chain
            let mut cur = prog.root;
            loop {
                let s = prog.st(cur);
                for f in &s.fields {
                    if let (Ty::Struct(n), false) = (&f.ty, f.flatten) {
                        let c = candidate_chain(prog, *n);
                        let k: Vec<String> = c.iter().flatten().cloned().collect();
                        let p = s.eff_name(f);
                        positions.push((format!("#[x({p}({{N}} = 1))] struct S;"), c.clone(), k.clone()));
                        positions.push((format!("#[x({p}({{N}} = 1, zz9q = 2))] struct S;"), c, k));
                    }
                }
                match s.fields.iter().find(|f| f.flatten) {
                    Some(f) => match &f.ty {
                        Ty::Struct(c) | Ty::BoxStruct(c) => cur = *c,
                        _ => break,
                    },
                    None => break,
                }
            }
        }
    }
    for (tmpl, chain, known) in &positions {
        for name in &names {
            if known.contains(name) || syn::parse_str::<syn::Ident>(name).is_err() {
                continue; // addressable there, or a keyword
            }
            let src = tmpl.replace("{N}", name);
            let obs = (e.run)(&src);
            t.evaluations += 1;
            t.states += 1;
            t.transitions += 1;
            t.traces += 1;
            let leaves = match &obs {
                Obs::Err { leaves, .. } => leaves.clone(),
                other => {
                    t.violate(Violation { key: format!("C17 family=[{}] src=`{src}` :: not an error: {other:?}", prog.family), what: format!("[{}] `{src}`: expected an unknown-name error, got {other:?}", prog.family), case: json!({"engine": "corpus-sugg", "program": idx, "src": src}), detail: json!({}) });
                    continue;
                }
            };
            let want = if feature_on { best_suggestions(name, chain) } else { vec![] };
            let mut complaints: Vec<String> = vec![];
            let mut found = false;
            for l in &leaves {
                let is_target = l.display.starts_with(&format!("Unknown field: `{name}`"));
                let sg = parse_suggestion(&l.display);
                if is_target {
                    found = true;
                    match (&sg, want.is_empty()) {
                        (None, true) => t.hit("no_suggestion_expected"),
                        (Some(s), false) if want.contains(s) => {
                            t.hit("suggestion_matches");
                            t.nontrivial += 1;
                            // soundness: the suggested name is accepted at that very position
                            let src2 = tmpl.replace("{N}", s);
                            if let Obs::Err { leaves: l2, .. } = (e.run)(&src2) {
                                if l2.iter().any(|x| x.display.starts_with(&format!("Unknown field: `{s}`"))) {
                                    complaints.push(format!("suggested `{s}` is itself rejected as unknown at that position"));
                                }
                            }
                        }
                        (Some(s), _) => complaints.push(format!("suggests `{s}`, expected {}", if want.is_empty() { "no suggestion".to_string() } else { format!("one of {want:?}") })),
                        (None, false) => complaints.push(format!("no suggestion, expected one of {want:?}")),
                    }
                } else if l.display.starts_with("Unknown field: `") && !l.display.starts_with("Unknown field: `zz9q`") {
                    // another unknown name of the template: same candidate chain
                    let other: String = l.display["Unknown field: `".len()..].chars().take_while(|c| *c != '`').collect();
                    let w = if feature_on { best_suggestions(&other, chain) } else { vec![] };
                    match (&sg, w.is_empty()) {
                        (None, true) => {}
                        (Some(s), false) if w.contains(s) => t.hit("second_name_suggestion_matches"),
                        (Some(s), _) => complaints.push(format!("`{other}` suggests `{s}`, expected {}", if w.is_empty() { "no suggestion".to_string() } else { format!("one of {w:?}") })),
                        (None, false) => complaints.push(format!("`{other}` got no suggestion, expected one of {w:?}")),
                    }
                } else if sg.is_some() && !l.display.starts_with("Unknown field: `zz9q`") {
                    complaints.push(format!("suggestion attached to another error: `{}`", l.display));
                } else if l.display.starts_with("Unknown field: `zz9q`") && sg.is_some() {
                    complaints.push(format!("`zz9q` resembles nothing but got a suggestion: `{}`", l.display));
                }
            }
            if !found {
                complaints.push(format!("no unknown-name error for `{name}` among {:?}", leaves.iter().map(|l| &l.display).collect::<Vec<_>>()));
            }
            for c in complaints {
                t.violate(Violation {
                    key: format!("C17 family=[{}] feature={} src=`{src}` :: {c}", prog.family, feature_on),
                    what: format!("[{} suggestions={}] `{src}`: {c}", prog.family, if feature_on { "on" } else { "off" }),
                    case: json!({"engine": "corpus-sugg", "program": idx, "src": src}),
                    detail: json!({"observed": format!("{obs:?}"), "candidates": format!("{chain:?}")}),
                });
            }
            if t.samples.is_empty() && !want.is_empty() {
                t.samples.push(json!({"program": prog.family, "src": src, "candidates_innermost_first": chain, "expected_suggestion_any_of": want}));
            }
        }
    }
}

// ------------------------------------------------------------------ C08: attribute selection

fn element_attrs(t: Trait, di: &syn::DeriveInput) -> Vec<syn::Attribute> {
    match t {
        Trait::FromMeta | Trait::FromDeriveInput | Trait::FromAttributes => di.attrs.clone(),
        Trait::FromField => match &di.data {
            syn::Data::Struct(s) => s.fields.iter().next().map(|f| f.attrs.clone()).unwrap_or_default(),
            _ => vec![],
        },
        Trait::FromVariant => match &di.data {
            syn::Data::Enum(e) => e.variants.iter().next().map(|v| v.attrs.clone()).unwrap_or_default(),
            _ => vec![],
        },
        Trait::FromTypeParam => di.generics.type_params().next().map(|t| t.attrs.clone()).unwrap_or_default(),
    }
}

fn path_is(p: &syn::Path, name: &str) -> bool {
    match syn::parse_str::<syn::Path>(name) {
        Ok(q) => *p == q,
        Err(_) => false,
    }
}

/// What the `attrs` member must hold for this source (token text, in source order).
fn expected_forwarded(s: &StructDecl, src: &str) -> Option<Vec<Val>> {
    let di: syn::DeriveInput = crate::run::parse_input(src).ok()?;
    let attrs = element_attrs(s.tr8, &di);
    let consumed = |a: &syn::Attribute| s.attrs.iter().any(|n| path_is(a.path(), n));
    let v: Vec<Val> = attrs
        .iter()
        .filter(|a| match &s.fwd {
            Fwd::Absent => false,
            Fwd::All => !consumed(a),
            Fwd::Only(list) => !consumed(a) && list.iter().any(|n| path_is(a.path(), n)),
        })
        .map(|a| Val::Tok(crate::run::show(a)))
        .collect();
    Some(v)
}

fn split_attrs_val(v: &Val) -> (Option<Val>, Val) {
    match v {
        Val::Rec(fields) => {
            let attrs = fields.iter().find(|(n, _)| n == "attrs").map(|(_, v)| v.clone());
            let rest: Vec<(String, Val)> = fields.iter().filter(|(n, _)| n != "attrs").cloned().collect();
            (attrs, Val::Rec(rest))
        }
        other => (None, other.clone()),
    }
}

/// Observable outcome with positions removed (columns shift between partitions).
fn outcome_key(o: &Obs) -> String {
    match o {
        Obs::Ok(v) => format!("Ok {:?}", split_attrs_val(v).1),
        Obs::Err { leaves, len, .. } => format!("Err len={len} {:?}", leaves.iter().map(|l| l.display.clone()).collect::<Vec<_>>()),
        Obs::Panic(p) => format!("Panic {p}"),
        Obs::NoParse(e) => format!("NoParse {e}"),
    }
}

fn explore_attrs(idx: usize, e: &Entry, first: Option<usize>, thorough: bool, t: &mut Tally) {
    let s = e.prog.st(e.prog.root);
    let (prefix, suffix) = element_wrapper(s.tr8);
    let alpha = corpus::attr_alphabet();
    let foreign = corpus::foreign_attrs();
    let names: Vec<String> = s.attrs.clone();
    if names.is_empty() {
        // forwarding-only receiver: every combination of 0..2 unrelated attributes
        if first.is_some() {
            return;
        }
        let mut combos: Vec<Vec<String>> = vec![vec![]];
        for f in &foreign {
            combos.push(vec![f.to_string()]);
            for g in &foreign {
                combos.push(vec![f.to_string(), g.to_string()]);
            }
        }
        for attrs in combos {
            let src = format!("{prefix}{} {suffix}", attrs.join(" "));
            let obs = (e.run)(&src);
            t.evaluations += 1;
            t.states += 1;
            t.traces += 1;
            let complaint = match &obs {
                Obs::Panic(p) => Some(format!("panicked: {p}")),
                Obs::Ok(v) => {
                    let (got, _) = split_attrs_val(v);
                    let want = expected_forwarded(s, &src);
                    t.hit("forwarding_checked");
                    match (got, want) {
                        (Some(Val::List(g)), Some(w)) if g == w => None,
                        (g, w) => Some(format!("forwarded attrs {g:?}, expected {w:?}")),
                    }
                }
                other => Some(format!("a receiver with only optional members failed: {other:?}")),
            };
            if let Some(c) = complaint {
                t.violate(Violation {
                    key: format!("C08 family=[{}] src=`{src}` :: {c}", e.prog.family),
                    what: format!("[{}] `{src}`: {c}", e.prog.family),
                    case: json!({"engine": "corpus-attrs", "program": idx, "src": src, "items": []}),
                    detail: json!({}),
                });
            }
        }
        return;
    }
    let maxlen = if thorough { 4 } else { 3 };
    let a = alpha.len();
    let check = |attrs: &[String], base_key: &str, what: &str, items: &[Item], t: &mut Tally| {
        let src = format!("{prefix}{} {suffix}", attrs.join(" "));
        let obs = (e.run)(&src);
        t.evaluations += 1;
        t.traces += 1;
        t.transitions += 1;
        let mut complaints: Vec<String> = vec![];
        let key = outcome_key(&obs);
        if key != base_key {
            complaints.push(format!("{what}: outcome {key} differs from the single-attribute outcome {base_key}"));
        }
        if let Obs::Ok(v) = &obs {
            let (got, _) = split_attrs_val(v);
            let want = expected_forwarded(s, &src);
            match (&s.fwd, got, want) {
                (Fwd::Absent, _, _) => {}
                (_, Some(Val::List(g)), Some(w)) => {
                    t.hit("forwarding_checked");
                    if !w.is_empty() {
                        t.hit("forwarding_nonempty");
                    }
                    if g != w {
                        complaints.push(format!("forwarded attrs {g:?}, expected {w:?}"));
                    }
                }
                (_, g, w) => complaints.push(format!("machinery: attrs member {g:?} / expectation {w:?}")),
            }
        }
        for c in complaints {
            t.violate(Violation {
                key: format!("C08 family=[{}] src=`{src}` :: {c}", e.prog.family),
                what: format!("[{}] `{src}`: {c}", e.prog.family),
                case: json!({"engine": "corpus-attrs", "program": idx, "src": src, "items": items}),
                detail: json!({"observed": format!("{obs:?}")}),
            });
        }
    };
    // A claimed attribute written in name-value form (`#[a = 5]`) is a reported mistake: exactly
    // one more leaf than without it, spanned inside that attribute; never skipped, never a crash.
    if first.is_none() {
        let others = ["", "#[{N}(alpha = 5)]", "#[{N}(alpha = \"x\", zz)]", "#[doc = \"d\"] #[{N}(alpha = 5, gamma = 1)]"];
        for nv in ["#[{N} = 5]", "#[{N} = \"x\"]", "#[{N} = a::b]"] {
            for name in &names {
                for other in others {
                    for nv_first in [true, false] {
                        let nv_attr = nv.replace("{N}", name);
                        let rest = other.replace("{N}", &names[0]);
                        let base_src = format!("{prefix}{rest} {suffix}");
                        let src = if nv_first { format!("{prefix}{nv_attr} {rest} {suffix}") } else { format!("{prefix}{rest} {nv_attr} {suffix}") };
                        let at = src.find(&nv_attr).map(|b| src[..b].chars().count()).unwrap_or(0);
                        let region = (at, at + nv_attr.chars().count());
                        let leaves_of = |o: &Obs| -> Option<Vec<crate::run::LeafObs>> {
                            match o {
                                Obs::Ok(_) => Some(vec![]),
                                Obs::Err { leaves, .. } => Some(leaves.clone()),
                                _ => None,
                            }
                        };
                        let (b, w) = ((e.run)(&base_src), (e.run)(&src));
                        t.evaluations += 1;
                        t.hit("claimed_name_value_attributes");
                        let complaint = match (leaves_of(&b), leaves_of(&w), &w) {
                            (_, _, Obs::Panic(p)) => Some(format!("panicked: {p}")),
                            (Some(bl), Some(wl), _) => {
                                // multiset difference on the rendered text (columns shift with the insertion)
                                let mut rest: Vec<&str> = bl.iter().map(|x| x.display.as_str()).collect();
                                let mut extra: Vec<&crate::run::LeafObs> = vec![];
                                for l in &wl {
                                    match rest.iter().position(|d| *d == l.display) {
                                        Some(p) => {
                                            rest.swap_remove(p);
                                        }
                                        None => extra.push(l),
                                    }
                                }
                                if wl.len() != bl.len() + 1 || extra.len() != 1 {
                                    Some(format!("{} leaves with the name-value attribute, {} without it: exactly one more was expected ({:?})", wl.len(), bl.len(), wl.iter().map(|l| &l.display).collect::<Vec<_>>()))
                                } else {
                                    match extra[0].span {
                                        Some(sp) if crate::spans::within(sp, region) => None,
                                        other => Some(format!("the leaf for the name-value attribute (`{}`) is spanned at {other:?}, the attribute is at {region:?}", extra[0].display)),
                                    }
                                }
                            }
                            _ => None,
                        };
                        if let Some(c) = complaint {
                            t.violate(Violation {
                                key: format!("C08 family=[{}] src=`{src}` :: {c}", e.prog.family),
                                what: format!("[{}] `{src}`: {c}", e.prog.family),
                                case: json!({"engine": "corpus-attrs", "program": idx, "src": src, "items": []}),
                                detail: json!({}),
                            });
                        }
                    }
                }
            }
        }
    }
    // many attributes: nine occurrences of the `multiple` member (order and count observable), one
    // per attribute, under every rotation of the declared names, bare and with a foreign attribute
    // after each
    if first.is_none() && s.fields.iter().any(|f| s.eff_name(f) == "m" && f.multiple) || first.is_none() && s.fields.iter().any(|f| f.flatten) {
        for n in [5usize, 8, 9, 17, 33] {
            let texts: Vec<String> = (1..=n).map(|i| format!("m = {i}")).collect();
            let items: Vec<Item> = (1..=n).map(|i| Item::nv("m", &i.to_string())).collect();
            let base_src = format!("{prefix}#[{}({})] {suffix}", names[0], texts.join(", "));
            let base_key = outcome_key(&(e.run)(&base_src));
            t.states += 1;
            t.evaluations += 1;
            for rot in 0..names.len() {
                let attrs: Vec<String> = texts.iter().enumerate().map(|(i, tx)| format!("#[{}({tx})]", names[(i + rot) % names.len()])).collect();
                check(&attrs, &base_key, "one attribute per item", &items, t);
                let with_foreign: Vec<String> = attrs.iter().flat_map(|a| [a.clone(), "#[doc = \"x\"]".to_string()]).collect();
                check(&with_foreign, &base_key, "one attribute per item, foreign attributes between", &items, t);
                let pairs: Vec<String> = texts.chunks(2).enumerate().map(|(i, c)| format!("#[{}({})]", names[(i + rot) % names.len()], c.join(", "))).collect();
                check(&pairs, &base_key, "two items per attribute", &items, t);
            }
            t.hit("many_attributes");
        }
    }
    let lens: Vec<usize> = if first.is_none() { vec![0] } else { (1..=maxlen).collect() };
    for len in lens {
        let mut seq = vec![0usize; len];
        if let Some(f) = first {
            seq[0] = f;
        }
        loop {
            let items: Vec<Item> = seq.iter().map(|i| alpha[*i].clone()).collect();
            let texts: Vec<String> = items.iter().map(|it| vmodel::input::items_text(std::slice::from_ref(it))).collect();
            // baseline: one attribute holding everything
            let base_src = format!("{prefix}#[{}({})] {suffix}", names[0], texts.join(", "));
            let base = (e.run)(&base_src);
            let base_key = outcome_key(&base);
            t.states += 1;
            t.evaluations += 1;
            match &base {
                Obs::Ok(_) => t.hit("baseline_ok"),
                Obs::Err { .. } => {
                    t.hit("baseline_err");
                    t.nontrivial += 1;
                }
                Obs::Panic(p) => t.violate(Violation {
                    key: format!("C08 family=[{}] src=`{base_src}` :: panicked: {p}", e.prog.family),
                    what: format!("[{}] `{base_src}`: panicked: {p}", e.prog.family),
                    case: json!({"engine": "corpus-attrs", "program": idx, "src": base_src, "items": items}),
                    detail: json!({}),
                }),
                Obs::NoParse(_) => t.hit("generator_unparseable"),
            }
            // the single attribute with every value forwarded in an invisible group
            for marker in [crate::run::GROUPED, crate::run::GROUPED2] {
                if !base_src.contains(" = ") {
                    continue;
                }
                let gsrc = format!("{base_src}{marker}");
                let gobs = (e.run)(&gsrc);
                t.evaluations += 1;
                t.hit("grouped_values_inputs");
                let gkey = outcome_key(&gobs);
                if gkey != base_key {
                    t.violate(Violation {
                        key: format!("C08 family=[{}] src=`{gsrc}` :: grouped values: {gkey} vs {base_key}", e.prog.family),
                        what: format!("[{}] `{gsrc}`: with the values inside invisible groups the outcome is {gkey}, written in place it is {base_key}", e.prog.family),
                        case: json!({"engine": "corpus-attrs", "program": idx, "src": gsrc, "items": items}),
                        detail: json!({}),
                    });
                }
            }
            // a bare attribute list may carry inner-style attributes (`#![..]`): same selection,
            // same forwarding
            if s.tr8 == Trait::FromAttributes {
                for variant in [base_src.clone(), format!("{prefix}#[doc = \"d\"] #[{}({})] #[allow(dead_code)] {suffix}", names[0], texts.join(", "))] {
                    let plain = (e.run)(&variant);
                    let isrc = format!("{variant}{}", crate::run::INNER);
                    let iobs = (e.run)(&isrc);
                    t.evaluations += 1;
                    t.hit("inner_style_inputs");
                    let (ik, pk) = (outcome_key(&iobs).replace("# ! [", "# ["), outcome_key(&plain));
                    if ik != pk {
                        t.violate(Violation {
                            key: format!("C08 family=[{}] src=`{isrc}` :: inner style: {ik} vs {pk}", e.prog.family),
                            what: format!("[{}] `{variant}` with the attributes in inner style (`#![..]`): outcome {ik}, in outer style {pk}", e.prog.family),
                            case: json!({"engine": "corpus-attrs", "program": idx, "src": isrc, "items": items}),
                            detail: json!({}),
                        });
                    }
                }
            }
            // every partition into consecutive blocks x every assignment of declared names
            let n = len;
            let cuts = if n == 0 { 1 } else { 1usize << (n - 1) };
            for mask in 0..cuts {
                let mut blocks: Vec<Vec<String>> = vec![vec![]];
                for (i, tx) in texts.iter().enumerate() {
                    if i > 0 && (mask >> (i - 1)) & 1 == 1 {
                        blocks.push(vec![]);
                    }
                    blocks.last_mut().unwrap().push(tx.clone());
                }
                let nb = blocks.len();
                // every assignment of declared names to blocks; for four blocks only the
                // rotations (the full product is covered for up to three blocks)
                let full_product = names.len().pow(nb as u32);
                let assignments = if nb >= 4 { names.len() } else { full_product };
                for asg in 0..assignments {
                    let mut x = if nb >= 4 { (0..nb).fold(0usize, |acc, b| acc + ((b + asg) % names.len()) * names.len().pow(b as u32)) } else { asg };
                    let attrs: Vec<String> = blocks
                        .iter()
                        .map(|b| {
                            let nm = &names[x % names.len()];
                            x /= names.len();
                            format!("#[{nm}({})]", b.join(", "))
                        })
                        .collect();
                    if n == 0 && asg > 0 {
                        continue;
                    }
                    check(&attrs, &base_key, "split", &items, t);
                    // the same attributes written with bracket / brace delimiters
                    if asg == 0 {
                        for (open, close) in [("[", "]"), ("{", "}")] {
                            let alt: Vec<String> = attrs
                                .iter()
                                .map(|a| match (a.find('('), a.rfind(")]")) {
                                    (Some(i), Some(j)) if i < j => format!("{}{open}{}{close}]", &a[..i], &a[i + 1..j]),
                                    _ => a.clone(),
                                })
                                .collect();
                            check(&alt, &base_key, "other delimiters", &items, t);
                        }
                    }
                    // foreign attributes interleaved: every position x every foreign attribute
                    let full = mask + 1 == cuts || mask == 0;
                    if (thorough || asg == 0) && full {
                        for pos in 0..=attrs.len() {
                            for f in &foreign {
                                let mut with = attrs.clone();
                                with.insert(pos, f.to_string());
                                check(&with, &base_key, "foreign attribute interleaved", &items, t);
                                // the same attribute twice in a row (multiplicity is kept)
                                if mask == 0 {
                                    let mut twice = with.clone();
                                    twice.insert(pos, f.to_string());
                                    check(&twice, &base_key, "the same foreign attribute twice in a row", &items, t);
                                }
                                if thorough && mask == 0 && asg == 0 {
                                    for g in &foreign {
                                        let mut two = with.clone();
                                        two.push(g.to_string());
                                        check(&two, &base_key, "two foreign attributes", &items, t);
                                    }
                                }
                            }
                        }
                    }
                }
            }
            // next sequence (position 0 is fixed by the shard)
            let mut k = len;
            let mut done = false;
            loop {
                if k <= 1 {
                    done = true;
                    break;
                }
                k -= 1;
                seq[k] += 1;
                if seq[k] < a {
                    break;
                }
                seq[k] = 0;
            }
            if done {
                break;
            }
        }
    }
}

/// Wide receivers (216 option combinations as fields): structured mistake-free inputs.
fn explore_wide(prop: &str, idx: usize, e: &Entry, t: &mut Tally) {
    let s = e.prog.st(e.prog.root);
    let names: Vec<String> = s.fields.iter().map(|f| s.eff_name(f)).collect();
    let addressable: Vec<usize> = (0..s.fields.len()).filter(|i| s.fields[*i].addressable() && !names[*i].contains('-')).collect();
    let required: Vec<usize> = (0..s.fields.len()).filter(|i| {
        let f = &s.fields[*i];
        !f.skip && !f.multiple && f.dflt == Dflt::None && !s.has_container_default()
    }).collect();
    let val = |i: usize, form: usize| -> String {
        let v = 20 + i;
        // and_then rejects 13 after `with` adds 100: values here never hit it
        match form {
            0 => format!("{v}"),
            1 => format!("\"{v}\""),
            2 => format!("{:#x}", v),
            3 => format!("{v}u32"),
            _ => format!("{v}_"),
        }
    };
    let run = |items: Vec<Item>, t: &mut Tally| {
        let (src, exp) = build_case(&e.prog, &items);
        if !exp.is_ok() {
            t.hit("not_mistake_free_skipped");
            return;
        }
        let obs = (e.run)(&src);
        judge(prop, idx, &e.prog, &items, &src, &exp, &obs, t);
        t.states += 1;
        t.transitions += 1;
        t.nontrivial += 1;
        t.hit("wide_inputs");
    };
    // members whose effective name is not expressible as a path (kebab-case) cannot be supplied;
    // if one of them is required no input is mistake-free and the interpreter filters it out
    let base: Vec<Item> = required.iter().filter(|i| !names[**i].contains('-')).map(|i| Item::nv(&names[*i], &val(*i, 0))).collect();
    run(vec![], t);
    run(base.clone(), t);
    // each other addressable member in each literal form, before and after the required ones
    for &i in &addressable {
        for form in 0..5 {
            let it = Item::nv(&names[i], &val(i, form));
            let mut a: Vec<Item> = base.iter().filter(|b| b.name() != Some(names[i].as_str())).cloned().collect();
            let mut b = a.clone();
            a.push(it.clone());
            b.insert(0, it);
            run(a, t);
            run(b, t);
        }
        if s.fields[i].multiple {
            for n in 2..=3 {
                let mut a = base.clone();
                for k in 0..n {
                    a.push(Item::nv(&names[i], &val(i + k, k % 4)));
                }
                run(a, t);
            }
        }
    }
    // every addressable member once, in declaration order and in reverse; with every member of
    // a `multiple` field given twice
    let all: Vec<Item> = addressable.iter().map(|i| Item::nv(&names[*i], &val(*i, *i % 4))).collect();
    run(all.clone(), t);
    run(all.iter().rev().cloned().collect(), t);
    let mut twice = all.clone();
    for &i in &addressable {
        if s.fields[i].multiple {
            twice.push(Item::nv(&names[i], &val(i + 1, 1)));
        }
    }
    run(twice, t);
    // unknown and skipped names interleaved where unknown fields are allowed
    if s.allows_unknown() {
        let mut v = vec![Item::nv("zz", "1")];
        for (k, it) in all.iter().enumerate() {
            v.push(it.clone());
            if k % 7 == 0 {
                v.push(Item::list("zz", vec![Item::word("q")]));
            }
        }
        for (i, f) in s.fields.iter().enumerate() {
            if f.skip && !names[i].contains('-') && i % 5 == 0 {
                v.push(Item::nv(&names[i], "1"));
            }
        }
        run(v, t);
    }
}

/// Sequence length bound for a program: chosen so that the sequence tree stays below `budget`.
pub fn seq_bound(alpha: usize, want: usize, budget: u64) -> usize {
    let mut l = want;
    while l > 1 && (alpha as u64).pow(l as u32) > budget {
        l -= 1;
    }
    l
}

pub fn main(entries: Vec<Entry>) {
    crate::install_quiet_hook();
    let args: Vec<String> = std::env::args().collect();
    let get = |k: &str| args.iter().position(|a| a == k).and_then(|i| args.get(i + 1)).cloned();
    let prop = get("--prop").unwrap_or_else(|| "C02".into());
    let thorough = get("--tier").as_deref() == Some("thorough");
    if let Some(rp) = get("--replay") {
        let txt = std::fs::read_to_string(&rp).expect("replay file");
        let v: serde_json::Value = serde_json::from_str(&txt).unwrap();
        let c = &v["case"];
        let idx = c["program"].as_u64().unwrap() as usize;
        if c["engine"] == "corpus-sugg" {
            let src = c["src"].as_str().unwrap();
            let obs = (entries[idx].run)(src);
            println!("replay program {idx} [{}]\n  src: {src}\n  observed: {obs:?}", entries[idx].prog.family);
            std::process::exit(0);
        }
        if c["engine"] == "corpus-attrs" {
            let src = c["src"].as_str().unwrap();
            let obs = (entries[idx].run)(src);
            let s = entries[idx].prog.st(entries[idx].prog.root);
            println!("replay program {idx} [{}]\n  src: {src}\n  observed: {obs:?}\n  expected forwarded: {:?}", entries[idx].prog.family, expected_forwarded(s, src));
            println!("  (compare with the single-attribute spelling of the same items; exit status reflects only panics)");
            std::process::exit(if matches!(obs, Obs::Panic(_)) { 1 } else { 0 });
        }
        if c["engine"] == "corpus-hostile" {
            let src = c["src"].as_str().unwrap();
            let obs = (entries[idx].run)(src);
            println!("replay program {idx} [{}]\n  src: {src}\n  observed: {obs:?}", entries[idx].prog.family);
            std::process::exit(if matches!(obs, Obs::Panic(_)) { 1 } else { 0 });
        }
        let items: Vec<Item> = serde_json::from_value(c["items"].clone()).unwrap();
        let e = &entries[idx];
        if matches!(e.prog.decls[e.prog.root], Decl::Enum(_)) {
            let mut src = String::from("#[");
            let p = print_item(&items[0], &mut src);
            src.push_str("] struct S;");
            let exp = Interp::new(&e.prog).conv_enum(e.prog.root, &p);
            let obs = (e.run)(&src);
            let mut t = Tally::default();
            judge(&prop, idx, &e.prog, &items, &src, &exp, &obs, &mut t);
            println!("replay program {idx} [{}]\n  src: {src}\n  expected: {:?} {:?}\n  observed: {obs:?}", e.prog.family, exp.value, exp.leaves);
            std::process::exit(if t.violations.is_empty() { 0 } else { 1 });
        }
        let (src, exp) = build_case(&e.prog, &items);
        let obs = (e.run)(&src);
        let mut t = Tally::default();
        judge(&prop, idx, &e.prog, &items, &src, &exp, &obs, &mut t);
        println!("replay program {idx} [{}]\n  src: {src}\n  expected: {:?} {:?}\n  observed: {obs:?}", e.prog.family, exp.value, exp.leaves);
        for v in &t.violations {
            println!("  DISAGREES: {}", v.what);
        }
        std::process::exit(if t.violations.is_empty() { 0 } else { 1 });
    }
    let out = get("--out").expect("--out");
    let shard: usize = get("--shard").and_then(|s| s.parse().ok()).unwrap_or(0);
    let want_len = if thorough { 4 } else { 3 };
    let budget: u64 = if thorough { 60_000 } else { 6_000 };
    let work: Vec<(usize, Option<usize>)> = entries
        .iter()
        .enumerate()
        .flat_map(|(i, e)| {
            let a = if e.prog.family.starts_with("wide ") { 0 } else if matches!(&e.prog.decls[e.prog.root], Decl::Struct(s) if s.tr8.element_level() && s.attrs.is_empty()) { 0 } else if prop == "C17" { 0 } else if prop == "C08" { corpus::attr_alphabet().len() } else if matches!(e.prog.decls[e.prog.root], Decl::Enum(_)) { 0 } else { corpus::root_alphabet(&e.prog).len() };
            std::iter::once((i, None)).chain((0..a).map(move |f| (i, Some(f))))
        })
        .collect();
    let tally = work
        .par_iter()
        .map(|(i, first)| {
            let e = &entries[*i];
            let mut t = Tally::default();
            let forwarding_only = matches!(&e.prog.decls[e.prog.root], Decl::Struct(s) if s.tr8.element_level() && s.attrs.is_empty());
            if forwarding_only && prop != "C08" {
                if first.is_none() {
                    explore_attrs(*i, e, None, thorough, &mut t);
                    // only panics belong to the other properties
                    t.violations.retain(|v| v.key.contains("panicked"));
                    for v in &mut t.violations {
                        v.key = v.key.replacen("C08 ", &format!("{prop} "), 1);
                    }
                    t.hit("programs");
                }
                return t;
            }
            if e.prog.family.starts_with("wide ") {
                if first.is_none() {
                    explore_wide(&prop, *i, e, &mut t);
                    t.hit("programs");
                }
                return t;
            }
            if prop == "C17" {
                if first.is_none() {
                    explore_sugg(*i, e, thorough, !args.iter().any(|a| a == "--no-sugg"), &mut t);
                    t.hit("programs");
                }
                return t;
            }
            if prop == "C08" {
                explore_attrs(*i, e, *first, thorough, &mut t);
                if first.is_none() {
                    t.hit("programs");
                }
                return t;
            }
            if matches!(e.prog.decls[e.prog.root], Decl::Enum(_)) {
                explore_enum(&prop, *i, e, if thorough && e.prog.en(e.prog.root).variants.len() <= 2 { 3 } else { 2 }, &mut t);
                t.hit("programs");
                return t;
            }
            let alphabet = if prop == "C01" { corpus::valid_alphabet(&e.prog) } else { corpus::root_alphabet(&e.prog) };
            let l = if prop == "C01" { seq_bound(alphabet.len().max(1), want_len + 1, budget * 4) } else { seq_bound(alphabet.len(), want_len, budget) };
            if first.map(|f| f >= alphabet.len()).unwrap_or(false) {
                return t;
            }
            explore_program(&prop, *i, e, *first, &alphabet, l, &mut t);
            if first.is_none() && prop == "C07" {
                hostile_sweep(*i, e, &mut t);
            }
            if first.is_none() {
                t.hit("programs");
                t.hit(&format!("seq_len_{l}"));
            }
            t
        })
        .reduce(Tally::default, Tally::merge);
    let mut tally = tally;
    for v in &mut tally.violations {
        v.case["shard"] = json!(shard);
    }
    std::fs::write(&out, serde_json::to_string(&tally).unwrap()).expect("write tally");
}
