//! `ToVal`: structural rendering of parsed receivers (generated impls call these).
use vmodel::ir::Val;

pub trait ToVal {
    fn to_val(&self) -> Val;
}
impl ToVal for u32 {
    fn to_val(&self) -> Val {
        Val::U(*self as u64)
    }
}
impl ToVal for bool {
    fn to_val(&self) -> Val {
        Val::B(*self)
    }
}
impl ToVal for String {
    fn to_val(&self) -> Val {
        Val::S(self.clone())
    }
}
impl ToVal for darling::util::Flag {
    fn to_val(&self) -> Val {
        Val::B(self.is_present())
    }
}
impl<T: ToVal> ToVal for Option<T> {
    fn to_val(&self) -> Val {
        match self {
            None => Val::None,
            Some(v) => Val::Some(Box::new(v.to_val())),
        }
    }
}
impl<T: ToVal> ToVal for Vec<T> {
    fn to_val(&self) -> Val {
        Val::List(self.iter().map(|v| v.to_val()).collect())
    }
}
impl<T: ToVal> ToVal for Box<T> {
    fn to_val(&self) -> Val {
        (**self).to_val()
    }
}
impl<T: ToVal> ToVal for &T {
    fn to_val(&self) -> Val {
        (**self).to_val()
    }
}
impl<T: ToVal> ToVal for std::collections::HashMap<String, T> {
    fn to_val(&self) -> Val {
        let mut v: Vec<(String, Val)> = self.iter().map(|(k, v)| (k.clone(), v.to_val())).collect();
        v.sort_by(|a, b| a.0.cmp(&b.0));
        Val::Map(v)
    }
}
macro_rules! tok {
    ($($t:ty),*) => { $(impl ToVal for $t { fn to_val(&self) -> Val { Val::Tok(quote::ToTokens::to_token_stream(self).to_string()) } })* };
}
tok!(syn::Ident, syn::Visibility, syn::Type, syn::Generics, syn::Attribute, syn::Expr, syn::TypeParamBound, syn::Path);
