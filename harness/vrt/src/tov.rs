//! `ToVal`: structural rendering of parsed receivers (generated impls call these).
use vmodel::ir::Val;

pub trait ToVal {
    fn to_val(&self) -> Val;
}
impl ToVal for u32 {
    fn to_val(&self) -> Val {
        Val::U(*self as u64)
    }
}
impl ToVal for bool {
    fn to_val(&self) -> Val {
        Val::B(*self)
    }
}
impl ToVal for String {
    fn to_val(&self) -> Val {
        Val::S(self.clone())
    }
}
impl ToVal for darling::util::Flag {
    fn to_val(&self) -> Val {
        Val::B(self.is_present())
    }
}
impl<T: ToVal> ToVal for Option<T> {
    fn to_val(&self) -> Val {
        match self {
            None => Val::None,
            Some(v) => Val::Some(Box::new(v.to_val())),
        }
    }
}
impl<T: ToVal> ToVal for Vec<T> {
    fn to_val(&self) -> Val {
        Val::List(self.iter().map(|v| v.to_val()).collect())
    }
}
impl<T: ToVal> ToVal for Box<T> {
    fn to_val(&self) -> Val {
        (**self).to_val()
    }
}
impl<T: ToVal> ToVal for &T {
    fn to_val(&self) -> Val {
        (**self).to_val()
    }
}
impl<T: ToVal> ToVal for std::collections::HashMap<String, T> {
    fn to_val(&self) -> Val {
        let mut v: Vec<(String, Val)> = self.iter().map(|(k, v)| (k.clone(), v.to_val())).collect();
        v.sort_by(|a, b| a.0.cmp(&b.0));
        Val::Map(v)
    }
}
macro_rules! tok {
    ($($t:ty),*) => { $(impl ToVal for $t { fn to_val(&self) -> Val { Val::Tok(crate::run::show(self)) } })* };
}
tok!(syn::Ident, syn::Visibility, syn::Type, syn::Attribute, syn::Expr, syn::TypeParamBound, syn::Path, syn::LifetimeParam, syn::ConstParam, syn::TypeParam, syn::WhereClause, syn::GenericParam, syn::Field, syn::Variant);

impl ToVal for syn::Generics {
    fn to_val(&self) -> Val {
        Val::Rec(vec![
            ("params".into(), Val::List(self.params.iter().map(|p| p.to_val()).collect())),
            ("where".into(), self.where_clause.to_val()),
            ("angle".into(), Val::B(self.lt_token.is_some())),
        ])
    }
}
impl ToVal for () {
    fn to_val(&self) -> Val {
        Val::Unit
    }
}
impl ToVal for darling::util::Ignored {
    fn to_val(&self) -> Val {
        Val::Unit
    }
}
impl<T: ToVal> ToVal for darling::Result<T> {
    fn to_val(&self) -> Val {
        match self {
            Ok(v) => Val::Var("Ok".into(), Box::new(v.to_val())),
            Err(e) => Val::Var("Err".into(), Box::new(Val::U(e.len() as u64))),
        }
    }
}
impl<T: ToVal> ToVal for darling::util::SpannedValue<T> {
    fn to_val(&self) -> Val {
        Val::Rec(vec![("spanned".into(), (**self).to_val()), ("span".into(), match crate::spans::cols(self.span()) {
            Some((a, b)) => Val::List(vec![Val::U(a as u64), Val::U(b as u64)]),
            None => Val::None,
        })])
    }
}
impl<T: ToVal, O: quote::ToTokens> ToVal for darling::util::WithOriginal<T, O> {
    fn to_val(&self) -> Val {
        Val::Rec(vec![("parsed".into(), self.parsed.to_val()), ("original".into(), Val::Tok(crate::run::show(&self.original)))])
    }
}
impl<T: ToVal> ToVal for darling::ast::Fields<T> {
    fn to_val(&self) -> Val {
        let style = match self.style {
            darling::ast::Style::Tuple => "Tuple",
            darling::ast::Style::Struct => "Struct",
            darling::ast::Style::Unit => "Unit",
        };
        Val::Rec(vec![("style".into(), Val::S(style.into())), ("fields".into(), Val::List(self.fields.iter().map(|f| f.to_val()).collect()))])
    }
}
impl<V: ToVal, F: ToVal> ToVal for darling::ast::Data<V, F> {
    fn to_val(&self) -> Val {
        match self {
            darling::ast::Data::Enum(vs) => Val::Var("Enum".into(), Box::new(Val::List(vs.iter().map(|v| v.to_val()).collect()))),
            darling::ast::Data::Struct(f) => Val::Var("Struct".into(), Box::new(f.to_val())),
        }
    }
}
impl<T: ToVal> ToVal for darling::ast::GenericParam<T> {
    fn to_val(&self) -> Val {
        match self {
            darling::ast::GenericParam::Type(t) => Val::Var("Type".into(), Box::new(t.to_val())),
            darling::ast::GenericParam::Lifetime(l) => Val::Var("Lifetime".into(), Box::new(l.to_val())),
            darling::ast::GenericParam::Const(c) => Val::Var("Const".into(), Box::new(c.to_val())),
        }
    }
}
impl<P: ToVal + darling::ast::GenericParamExt> ToVal for darling::ast::Generics<P>
where
    P::TypeParam: ToVal,
{
    fn to_val(&self) -> Val {
        Val::Rec(vec![
            ("params".into(), Val::List(self.params.iter().map(|p| p.to_val()).collect())),
            ("where".into(), self.where_clause.to_val()),
            // the `type_params()` view must show every type parameter, in order
            ("type_params".into(), Val::List(self.type_params().map(|t| t.to_val()).collect())),
        ])
    }
}
