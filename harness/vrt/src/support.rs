//! Helper functions named by the generated receivers' options. Their effects are visible in
//! the parsed value (see vmodel::ir constants).
use darling::FromMeta;

pub fn with_u32(m: &syn::Meta) -> darling::Result<u32> {
    u32::from_meta(m).map(|v| v + vmodel::ir::WITH_ADD as u32)
}
pub fn map_u32(v: u32) -> u32 {
    vmodel::ir::map_fn(v as u64) as u32
}
pub fn and_then_u32(v: u32) -> darling::Result<u32> {
    if v as u64 == vmodel::ir::AND_THEN_REJECTS {
        Err(darling::Error::custom("thirteen"))
    } else {
        Ok(vmodel::ir::and_then_fn(v as u64) as u32)
    }
}
pub fn with_opt_u32(m: &syn::Meta) -> darling::Result<Option<u32>> {
    <Option<u32>>::from_meta(m).map(|v| v.map(|x| x + vmodel::ir::WITH_ADD as u32))
}
