//! Run-time glue shared by every check: tallies, evidence and replay writers,
//! known-findings matching, span helpers.
pub mod report;
pub mod spans;
pub use report::*;
pub mod support;
pub mod tov;
pub use tov::ToVal;
pub mod run;
pub mod explore;
pub mod body;
pub mod shape;
