use serde_json::{json, Map, Value};
use std::collections::BTreeMap;
use std::path::PathBuf;
use std::time::Instant;

#[derive(Clone, Copy, PartialEq, Eq, Debug)]
pub enum Tier {
    Quick,
    Thorough,
}

impl Tier {
    pub fn name(self) -> &'static str {
        match self {
            Tier::Quick => "quick",
            Tier::Thorough => "thorough",
        }
    }
    pub fn pick<T>(self, q: T, t: T) -> T {
        match self {
            Tier::Quick => q,
            Tier::Thorough => t,
        }
    }
}

pub fn verif_dir() -> PathBuf {
    PathBuf::from(std::env::var("VERIF_DIR").unwrap_or_else(|_| "/verif".into()))
}

/// One observed disagreement between the implementation and the oracle.
#[derive(Clone, Debug, serde::Serialize, serde::Deserialize)]
pub struct Violation {
    /// Stable, structured description of the failing case; known-findings
    /// matchers (regular-expression-free "all of these substrings") run on it.
    pub key: String,
    /// One-line human description.
    pub what: String,
    /// Replayable case (fed back through `--replay`).
    pub case: Value,
    /// Expected / observed details.
    pub detail: Value,
}

/// Per-shard counters; merged associatively so rayon fold/reduce can be used.
#[derive(Default, Clone, Debug, serde::Serialize, serde::Deserialize)]
pub struct Tally {
    pub evaluations: u64,
    pub nontrivial: u64,
    pub states: u64,
    pub transitions: u64,
    pub traces: u64,
    pub counters: BTreeMap<String, u64>,
    pub outcome_classes: std::collections::BTreeSet<String>,
    pub samples: Vec<Value>,
    pub violations: Vec<Violation>,
    pub violation_count: u64,
}

pub const MAX_KEPT_VIOLATIONS: usize = 400;

impl Tally {
    pub fn hit(&mut self, name: &str) {
        *self.counters.entry(name.to_string()).or_insert(0) += 1;
    }
    pub fn hit_n(&mut self, name: &str, n: u64) {
        *self.counters.entry(name.to_string()).or_insert(0) += n;
    }
    pub fn class(&mut self, name: &str) {
        if !self.outcome_classes.contains(name) {
            self.outcome_classes.insert(name.to_string());
        }
    }
    pub fn sample(&mut self, v: impl FnOnce() -> Value) {
        if self.samples.len() < 2 {
            self.samples.push(v());
        }
    }
    pub fn violate(&mut self, v: Violation) {
        self.violation_count += 1;
        // keep one violation per distinct key so that a flood of one class does
        // not hide another class
        if self.violations.len() < MAX_KEPT_VIOLATIONS
            && !self.violations.iter().any(|x| x.key == v.key)
        {
            self.violations.push(v);
        }
    }
    pub fn merge(mut self, o: Tally) -> Tally {
        self.evaluations += o.evaluations;
        self.nontrivial += o.nontrivial;
        self.states += o.states;
        self.transitions += o.transitions;
        self.traces += o.traces;
        for (k, v) in o.counters {
            *self.counters.entry(k).or_insert(0) += v;
        }
        self.outcome_classes.extend(o.outcome_classes);
        for s in o.samples {
            if self.samples.len() < 6 {
                self.samples.push(s);
            }
        }
        self.violation_count += o.violation_count;
        for v in o.violations {
            if self.violations.len() < MAX_KEPT_VIOLATIONS
                && !self.violations.iter().any(|x| x.key == v.key)
            {
                self.violations.push(v);
            }
        }
        self
    }
}

pub struct Report {
    pub prop: String,
    pub tier: Tier,
    pub seed: i64,
    pub level: &'static str,
    pub start: Instant,
    pub rule: String,
    pub assumptions: Vec<String>,
    pub extra: Map<String, Value>,
    pub exhaustive: bool,
    pub tally: Tally,
}

#[derive(Debug)]
struct Known {
    status: String,
    property: String,
    all_of: Vec<String>,
    regex: Option<regex::Regex>,
    what: String,
}

fn load_known() -> Vec<Known> {
    let p = verif_dir().join("known_findings.json");
    let Ok(txt) = std::fs::read_to_string(&p) else {
        return vec![];
    };
    let v: Value = serde_json::from_str(&txt).unwrap_or_else(|e| machinery(&format!("known_findings.json: {e}")));
    let mut out = vec![];
    for e in v["findings"].as_array().cloned().unwrap_or_default() {
        out.push(Known {
            status: e["status"].as_str().unwrap_or("").to_string(),
            property: e["property"].as_str().unwrap_or("").to_string(),
            all_of: e["match_all"]
                .as_array()
                .map(|a| a.iter().filter_map(|s| s.as_str().map(String::from)).collect())
                .unwrap_or_default(),
            regex: e["match_regex"].as_str().map(|r| regex::Regex::new(r).unwrap_or_else(|x| machinery(&format!("known_findings.json: bad regex: {x}")))),
            what: e["what"].as_str().unwrap_or("").to_string(),
        });
    }
    out
}

/// Machinery failure: never a verdict.
pub fn machinery(msg: &str) -> ! {
    eprintln!("MACHINERY-ERROR: {msg}");
    std::process::exit(2)
}

impl Report {
    pub fn new(prop: &str, tier: Tier, level: &'static str) -> Report {
        let seed = std::env::var("VERIF_SEED").ok().and_then(|s| s.parse().ok()).unwrap_or(0);
        Report {
            prop: prop.to_string(),
            tier,
            seed,
            level,
            start: Instant::now(),
            rule: String::new(),
            assumptions: vec![],
            extra: Map::new(),
            exhaustive: true,
            tally: Tally::default(),
        }
    }

    pub fn absorb(&mut self, t: Tally) {
        let cur = std::mem::take(&mut self.tally);
        self.tally = cur.merge(t);
    }

    pub fn set(&mut self, k: &str, v: Value) {
        self.extra.insert(k.to_string(), v);
    }

    /// Vacuity guard: a failed requirement is a machinery error, not a verdict.
    pub fn require(&self, cond: bool, msg: &str) {
        if !cond {
            machinery(&format!("{}: vacuity/consistency guard failed: {msg}", self.prop));
        }
    }

    pub fn require_counter(&self, name: &str) {
        let n = self.tally.counters.get(name).copied().unwrap_or(0);
        self.require(n > 0, &format!("counter `{name}` was never hit"));
    }

    /// Writes evidence, prints KNOWN-FINDING / VIOLATION lines, exits.
    pub fn finish(self) -> ! {
        let known = load_known();
        let mut unknown: Vec<&Violation> = vec![];
        let mut known_hits: BTreeMap<String, u64> = BTreeMap::new();
        for v in &self.tally.violations {
            let m = known.iter().find(|k| {
                k.status == "known"
                    && k.property == self.prop
                    && (!k.all_of.is_empty() || k.regex.is_some())
                    && k.all_of.iter().all(|s| v.key.contains(s.as_str()))
                    && k.regex.as_ref().map(|r| r.is_match(&v.key)).unwrap_or(true)
            });
            match m {
                Some(k) => *known_hits.entry(k.what.clone()).or_insert(0) += 1,
                None => unknown.push(v),
            }
        }
        for (what, _) in &known_hits {
            println!("KNOWN-FINDING: property={} {}", self.prop, what);
        }
        let dir = verif_dir().join("replays").join(&self.prop);
        let mut replay_paths = vec![];
        // replays of an earlier run of this tier are stale either way
        if let Ok(rd) = std::fs::read_dir(&dir) {
            for f in rd.flatten() {
                if f.file_name().to_string_lossy().starts_with(self.tier.name()) {
                    let _ = std::fs::remove_file(f.path());
                }
            }
        }
        if !unknown.is_empty() {
            std::fs::create_dir_all(&dir).ok();
            for (i, v) in unknown.iter().enumerate().take(25) {
                let p = dir.join(format!("{}-{:03}.json", self.tier.name(), i));
                let body = json!({
                    "property": self.prop, "key": v.key, "what": v.what, "case": v.case, "detail": v.detail,
                });
                std::fs::write(&p, serde_json::to_string_pretty(&body).unwrap()).ok();
                replay_paths.push((p, v.what.clone()));
            }
        }
        let t = &self.tally;
        let mut cov = Map::new();
        cov.insert("evaluations".into(), json!(t.evaluations));
        cov.insert("distinct_nontrivial".into(), json!(t.nontrivial));
        cov.insert("rule".into(), json!(self.rule));
        cov.insert("samples".into(), Value::Array(t.samples.clone()));
        cov.insert("exhaustive".into(), json!(self.exhaustive));
        if self.level == "model_checking" {
            cov.insert("states".into(), json!(t.states));
            cov.insert("transitions".into(), json!(t.transitions));
            cov.insert("traces_validated_against_impl".into(), json!(t.traces));
        }
        cov.insert("counters".into(), json!(t.counters));
        cov.insert("distinct_outcome_classes".into(), json!(t.outcome_classes.len()));
        cov.insert("known_finding_hits".into(), json!(known_hits));
        cov.insert("violations_total_including_known".into(), json!(t.violation_count));
        for (k, v) in &self.extra {
            cov.insert(k.clone(), v.clone());
        }
        let ev = json!({
            "property_id": self.prop,
            "tier": self.tier.name(),
            "seed": self.seed,
            "level": self.level,
            "coverage": Value::Object(cov),
            "assumptions": self.assumptions,
            "wall_s": self.start.elapsed().as_secs_f64(),
            "violations": unknown.len(),
        });
        let evdir = std::env::var("VERIF_EVIDENCE_DIR").map(PathBuf::from).unwrap_or_else(|_| verif_dir().join("evidence"));
        std::fs::create_dir_all(&evdir).ok();
        let evp = evdir.join(format!("{}.json", self.prop));
        if let Err(e) = std::fs::write(&evp, serde_json::to_string_pretty(&ev).unwrap()) {
            machinery(&format!("cannot write evidence {}: {e}", evp.display()));
        }
        println!(
            "{} tier={} evaluations={} nontrivial={} states={} transitions={} traces={} classes={} violations={} (known-matched {}) wall={:.1}s",
            self.prop, self.tier.name(), t.evaluations, t.nontrivial, t.states, t.transitions, t.traces,
            t.outcome_classes.len(), unknown.len(), known_hits.values().sum::<u64>(), self.start.elapsed().as_secs_f64()
        );
        if unknown.is_empty() {
            std::process::exit(0)
        }
        for (p, what) in &replay_paths {
            println!("VIOLATION property={} replay={}   # {}", self.prop, p.display(), what);
        }
        std::process::exit(1)
    }
}

/// Runs `f` with the panic hook silenced (per thread flag) and returns Err(message) on unwind.
pub fn catch<R>(f: impl FnOnce() -> R + std::panic::UnwindSafe) -> Result<R, String> {
    QUIET.with(|q| q.set(q.get() + 1));
    let r = std::panic::catch_unwind(f);
    QUIET.with(|q| q.set(q.get() - 1));
    r.map_err(|e| {
        if let Some(s) = e.downcast_ref::<&str>() {
            s.to_string()
        } else if let Some(s) = e.downcast_ref::<String>() {
            s.clone()
        } else {
            "<non-string panic payload>".to_string()
        }
    })
}

thread_local! {
    static QUIET: std::cell::Cell<u32> = const { std::cell::Cell::new(0) };
}

/// Installs a panic hook that stays silent while inside `catch`.
pub fn install_quiet_hook() {
    let prev = std::panic::take_hook();
    std::panic::set_hook(Box::new(move |info| {
        let quiet = QUIET.with(|q| q.get()) > 0;
        if !quiet {
            prev(info);
        }
    }));
}
