//! C18 explorer: `supports(..)` receivers x input bodies, against the documented shape table;
//! the stand-alone ShapeSet API against the same table and against the derived verdicts.
use crate::report::{Tally, Violation};
use crate::run::{Obs, Runner};
use darling::util::{Shape, ShapeSet};
use rayon::prelude::*;
use serde_json::json;

pub const WORDS: [&str; 11] =
    ["any", "struct_any", "struct_named", "struct_tuple", "struct_newtype", "struct_unit", "enum_any", "enum_named", "enum_tuple", "enum_newtype", "enum_unit"];
pub const VWORDS: [&str; 5] = ["named", "tuple", "newtype", "unit", "any"];

pub struct ShapeEntry {
    /// bit i set = WORDS[i] (or VWORDS[i] for variant receivers) declared
    pub mask: usize,
    pub variant_receiver: bool,
    /// a FromDeriveInput receiver whose `data` member gathers a FromVariant receiver with
    /// `supports(mask over VWORDS)` over every variant of the input
    pub gathered: bool,
    /// the receiver also converts the body (`data: ast::Data<..>`): a union fails there whatever
    /// the declared set says
    pub converts_body: bool,
    /// the declaration repeats `supports(..)`: `mask` is the last list, `alt_mask` the union of
    /// the lists; either reading of the repetition is accepted, nothing else
    pub alt_mask: Option<usize>,
    pub run: Runner,
}

#[derive(Clone, Copy, PartialEq, Eq, Debug)]
pub enum Sh {
    Named,
    Tuple,
    Newtype,
    Unit,
}
pub const SHAPES: [Sh; 4] = [Sh::Named, Sh::Tuple, Sh::Newtype, Sh::Unit];

impl Sh {
    fn real(self) -> Shape {
        match self {
            Sh::Named => Shape::Named,
            Sh::Tuple => Shape::Tuple,
            Sh::Newtype => Shape::Newtype,
            Sh::Unit => Shape::Unit,
        }
    }
    fn body(self, name: &str) -> String {
        match self {
            Sh::Named => format!("{name} {{ a: u8, b: u8 }}"),
            Sh::Tuple => format!("{name}(u8, u8)"),
            Sh::Newtype => format!("{name}(u8)"),
            Sh::Unit => name.to_string(),
        }
    }
}

/// Documented table: does a set of four flags (named, tuple, newtype, unit) admit the shape?
pub fn admits(named: bool, tuple: bool, newtype: bool, unit: bool, s: Sh) -> bool {
    match s {
        Sh::Named => named,
        Sh::Tuple => tuple,
        Sh::Newtype => newtype || tuple,
        Sh::Unit => unit,
    }
}

fn kind_flags(mask: usize, base: usize) -> (bool, bool, bool, bool, bool) {
    // bits: base = *_any, base+1 named, base+2 tuple, base+3 newtype, base+4 unit
    let any = mask >> base & 1 == 1;
    let named = any || mask >> (base + 1) & 1 == 1;
    let tuple = any || mask >> (base + 2) & 1 == 1;
    let newtype = any || mask >> (base + 3) & 1 == 1;
    let unit = any || mask >> (base + 4) & 1 == 1;
    let declared = (mask >> base) & 0b11111 != 0;
    (named, tuple, newtype, unit, declared)
}

#[derive(Debug, PartialEq)]
pub enum Verdict {
    Ok,
    /// rejected with exactly this many errors
    Err(usize),
    /// rejected, count unspecified (union)
    ErrAny,
}

pub enum Body {
    Struct(Sh),
    Enum(Vec<Sh>),
    Union,
}

pub fn expected(mask: usize, body: &Body) -> Verdict {
    if mask & 1 == 1 {
        return Verdict::Ok;
    }
    match body {
        Body::Union => Verdict::ErrAny,
        Body::Struct(s) => {
            let (n, t, nt, u, declared) = kind_flags(mask, 1);
            if !declared || !admits(n, t, nt, u, *s) {
                Verdict::Err(1)
            } else {
                Verdict::Ok
            }
        }
        Body::Enum(vs) => {
            let (n, t, nt, u, declared) = kind_flags(mask, 6);
            if !declared {
                return Verdict::Err(1);
            }
            let bad = vs.iter().filter(|s| !admits(n, t, nt, u, **s)).count();
            if bad == 0 {
                Verdict::Ok
            } else {
                Verdict::Err(bad)
            }
        }
    }
}

pub fn bodies(max_variants: usize) -> Vec<(String, Body)> {
    let mut v = vec![];
    for s in SHAPES {
        let b = s.body("Foo");
        v.push((if matches!(s, Sh::Named) { format!("struct {b}") } else { format!("struct {b};") }, Body::Struct(s)));
    }
    v.push(("struct Foo {}".into(), Body::Struct(Sh::Named)));
    v.push(("struct Foo();".into(), Body::Struct(Sh::Tuple)));
    let mut seqs: Vec<Vec<Sh>> = vec![vec![]];
    let mut frontier: Vec<Vec<Sh>> = vec![vec![]];
    for _ in 0..max_variants {
        let mut next = vec![];
        for f in &frontier {
            for s in SHAPES {
                let mut n = f.clone();
                n.push(s);
                next.push(n);
            }
        }
        seqs.extend(next.iter().cloned());
        frontier = next;
    }
    for seq in seqs {
        let vs: Vec<String> = seq.iter().enumerate().map(|(i, s)| s.body(&format!("V{i}"))).collect();
        v.push((format!("enum Foo {{ {} }}", vs.join(", ")), Body::Enum(seq.clone())));
        // decorations that do not change any variant's shape: explicit discriminants,
        // attributes, empty brace / paren bodies are covered by the struct entries above
        if !seq.is_empty() && seq.len() <= 3 {
            let vs: Vec<String> = seq.iter().enumerate().map(|(i, s)| format!("#[doc = \"d\"] {} = {}", s.body(&format!("V{i}")), i + 1)).collect();
            v.push((format!("#[repr(u8)] enum Foo<T: Clone> where T: Copy {{ {} }}", vs.join(", ")), Body::Enum(seq.clone())));
            // only the last variant carries a discriminant
            let vs: Vec<String> = seq.iter().enumerate().map(|(i, s)| if i + 1 == seq.len() { format!("{} = 7", s.body(&format!("V{i}"))) } else { s.body(&format!("V{i}")) }).collect();
            v.push((format!("enum Foo {{ {} }}", vs.join(", ")), Body::Enum(seq)));
        }
    }
    // long enums: the four styles in rotation (every starting offset) at 5, 8, 9, 16, 17, 33 variants
    for n in [5usize, 8, 9, 16, 17, 33] {
        for off in 0..4 {
            let seq: Vec<Sh> = (0..n).map(|i| SHAPES[(off + i) % 4]).collect();
            let vs: Vec<String> = seq.iter().enumerate().map(|(i, s)| s.body(&format!("V{i}"))).collect();
            v.push((format!("enum Foo {{ {} }}", vs.join(", ")), Body::Enum(seq)));
        }
        // all variants of one style
        for s in SHAPES {
            let seq: Vec<Sh> = vec![s; n];
            let vs: Vec<String> = seq.iter().enumerate().map(|(i, s)| s.body(&format!("V{i}"))).collect();
            v.push((format!("enum Foo {{ {} }}", vs.join(", ")), Body::Enum(seq)));
        }
    }
    v.push(("union Foo { a: u8, b: u16 }".into(), Body::Union));
    v
}

fn judge(what: &str, mask: usize, src: &str, want: &Verdict, obs: &Obs, t: &mut Tally) {
    t.evaluations += 1;
    let got = match obs {
        Obs::Ok(_) => Ok(()),
        Obs::Err { len, .. } => Err(*len),
        Obs::Panic(p) => {
            t.violate(Violation { key: format!("C18 {what} mask={mask:#b} src=`{src}` :: panicked: {p}"), what: format!("{what} `{src}`: panicked: {p}"), case: json!({"engine": "shape", "mask": mask, "src": src, "variant_receiver": what.starts_with("FromVariant")}), detail: json!({}) });
            return;
        }
        Obs::NoParse(e) => {
            t.hit("generator_unparseable");
            t.violate(Violation { key: format!("C18 machinery `{src}`"), what: format!("machinery: `{src}`: {e}"), case: json!({}), detail: json!({}) });
            return;
        }
    };
    let ok = match (want, &got) {
        (Verdict::Ok, Ok(())) => {
            t.hit("expect_accept");
            true
        }
        (Verdict::Err(n), Err(m)) => {
            t.hit("expect_reject");
            t.nontrivial += 1;
            t.class(&format!("errors={}", n.min(&5)));
            n == m
        }
        (Verdict::ErrAny, Err(_)) => {
            t.hit("expect_reject");
            t.nontrivial += 1;
            true
        }
        _ => false,
    };
    if !ok {
        t.violate(Violation {
            key: format!("C18 {what} mask={mask:#b} src=`{src}` :: got {got:?} expected {want:?}"),
            what: format!("{what} `{src}`: got {got:?}, the shape table says {want:?}"),
            case: json!({"engine": "shape", "mask": mask, "src": src, "variant_receiver": what.contains("FromVariant"), "gathered": what.contains("gathering")}),
            detail: json!({"observed": format!("{obs:?}")}),
        });
    }
}

fn words_of(mask: usize, words: &[&str]) -> String {
    words.iter().enumerate().filter(|(i, _)| mask >> i & 1 == 1).map(|(_, w)| *w).collect::<Vec<_>>().join(", ")
}

/// Run-time API: all 16 sets x 4 shapes x carriers.
pub fn api_sweep(t: &mut Tally) {
    for set_mask in 0..16usize {
        // a panic anywhere in the API (Display included) is a finding, not a crash of the harness
        let r = crate::catch(std::panic::AssertUnwindSafe(|| {
            let mut local = Tally::default();
            api_sweep_one(set_mask, &mut local);
            local
        }));
        match r {
            Ok(local) => {
                let cur = std::mem::take(t);
                *t = cur.merge(local);
            }
            Err(p) => t.violate(Violation { key: format!("C18 api set={set_mask:#06b} :: panicked: {p}"), what: format!("ShapeSet API with set {set_mask:#06b} panicked: {p}"), case: json!({"engine": "shape-api", "set": set_mask}), detail: json!({}) }),
        }
    }
}

fn api_sweep_one(set_mask: usize, t: &mut Tally) {
    {
        let shapes: Vec<Shape> = SHAPES.iter().enumerate().filter(|(i, _)| set_mask >> i & 1 == 1).map(|(_, s)| s.real()).collect();
        // every way of building the same set: new, collect, default + insert in both orders,
        // insert of duplicates, insert_all for the full set
        let mut built: Vec<(&str, ShapeSet)> = vec![("new", ShapeSet::new(shapes.clone())), ("collect", shapes.iter().copied().collect())];
        let mut a = ShapeSet::default();
        for sh in &shapes {
            a.insert(*sh);
        }
        built.push(("default + insert", a));
        let mut b = ShapeSet::default();
        for sh in shapes.iter().rev() {
            b.insert(*sh);
            b.insert(*sh);
        }
        built.push(("default + insert (reverse, twice)", b));
        let mut c = ShapeSet::new(shapes.iter().take(1).copied());
        for sh in shapes.iter().skip(1) {
            c.insert(*sh);
        }
        built.push(("new(first) + insert(rest)", c));
        if set_mask == 15 {
            let mut d = ShapeSet::default();
            d.insert_all();
            built.push(("insert_all", d));
        }
        // long item lists: every member repeated, a new shape first appearing after position 4, 8, 33
        if !shapes.is_empty() {
            for reps in [4usize, 5, 8, 33] {
                let mut long: Vec<Shape> = vec![];
                for sh in &shapes {
                    long.extend(std::iter::repeat(*sh).take(reps));
                }
                built.push(("new(each member repeated)", ShapeSet::new(long.clone())));
                built.push(("collect(each member repeated)", long.into_iter().collect()));
            }
        }
        let flag = |i: usize| set_mask >> i & 1 == 1;
        for (how, other) in &built[1..] {
            for s in SHAPES {
                t.evaluations += 1;
                if other.contains(&s.real()) != built[0].1.contains(&s.real()) || other.is_empty() != built[0].1.is_empty() || other.to_string() != built[0].1.to_string() {
                    t.violate(Violation {
                        key: format!("C18 api set={set_mask:#06b} built by {how} :: differs from ShapeSet::new on {s:?}"),
                        what: format!("ShapeSet {set_mask:#06b} built by `{how}`: contains({s:?}) = {}, is_empty = {}, Display `{other}`; built by `new`: {}, {}, `{}`", other.contains(&s.real()), other.is_empty(), built[0].1.contains(&s.real()), built[0].1.is_empty(), built[0].1),
                        case: json!({"engine": "shape-api", "set": set_mask}),
                        detail: json!({}),
                    });
                }
            }
        }
        let set = built.swap_remove(2).1; // the table below is checked on the insert-built set
        let set_new = ShapeSet::new(shapes);
        let _ = &set_new;
        // (shape, body text): the four standard bodies with and without a discriminant, and the
        // delimited bodies without fields (`V {}` is named, `V()` is a tuple)
        let mut carriers: Vec<(Sh, String)> = SHAPES.iter().flat_map(|s| ["", " = 3"].into_iter().map(move |d| (*s, format!("{}{d}", s.body("V"))))).collect();
        carriers.push((Sh::Named, "V {}".into()));
        carriers.push((Sh::Tuple, "V()".into()));
        carriers.push((Sh::Named, "V {} = 2".into()));
        for (s, body) in carriers {
            let want = admits(flag(0), flag(1), flag(2), flag(3), s);
            let di: syn::DeriveInput = syn::parse_str(&format!("enum E {{ #[doc = \"d\"] {body} }}")).unwrap();
            let variant = match &di.data {
                syn::Data::Enum(e) => e.variants[0].clone(),
                _ => unreachable!(),
            };
            let conv: darling::ast::Fields<syn::Field> = darling::ast::Fields::try_from(&variant.fields).unwrap();
            let obs = [
                ("Shape", set.contains(&s.real()), set.check(&s.real()).is_ok()),
                ("syn::Fields", set.contains(&variant.fields), set.check(&variant.fields).is_ok()),
                ("syn::Variant", set.contains(&variant), set.check(&variant).is_ok()),
                ("ast::Fields", set.contains(&conv), set.check(&conv).is_ok()),
            ];
            for (carrier, c, k) in obs {
                t.evaluations += 1;
                t.hit("api_checked");
                if c != want || k != want {
                    t.violate(Violation {
                        key: format!("C18 api set={set_mask:#06b} shape={s:?} carrier={carrier} :: contains={c} check_ok={k} expected {want}"),
                        what: format!("ShapeSet{{{}}} on {s:?} via {carrier}: contains = {c}, check().is_ok() = {k}, table says {want}", words_of(set_mask, &["named", "tuple", "newtype", "unit"])),
                        case: json!({"engine": "shape-api", "set": set_mask, "shape": format!("{s:?}")}),
                        detail: json!({}),
                    });
                }
            }
            // the error names the observed shape and the expectation
            if let Err(e) = set.check(&s.real()) {
                let msg = e.to_string();
                if !msg.contains(s.real().description()) || e.len() != 1 {
                    t.violate(Violation { key: format!("C18 api message set={set_mask} shape={s:?} :: {msg}"), what: format!("check() error `{msg}` does not name the observed shape"), case: json!({"engine": "shape-api", "set": set_mask, "shape": format!("{s:?}")}), detail: json!({}) });
                }
            }
        }
        let _ = set.to_string(); // Display must not panic for any set
        // an empty expectation is rendered as well
        let _ = set.check(&Shape::Named).map_err(|e| e.to_string());
    }
}

pub fn main(entries: Vec<ShapeEntry>) {
    crate::install_quiet_hook();
    let args: Vec<String> = std::env::args().collect();
    let get = |k: &str| args.iter().position(|a| a == k).and_then(|i| args.get(i + 1)).cloned();
    let thorough = get("--tier").as_deref() == Some("thorough");
    let bs = bodies(if thorough { 4 } else { 3 });
    if let Some(rp) = get("--replay") {
        let txt = std::fs::read_to_string(&rp).expect("replay file");
        let v: serde_json::Value = serde_json::from_str(&txt).unwrap();
        let c = &v["case"];
        let mut t = Tally::default();
        if c["engine"] == "shape-api" {
            api_sweep(&mut t);
        } else {
            let mask = c["mask"].as_u64().unwrap() as usize;
            let vr = c["variant_receiver"].as_bool().unwrap_or(false);
            let src = c["src"].as_str().unwrap();
            let gathered = c["gathered"].as_bool().unwrap_or(false);
            let alt = c["alt_mask"].as_u64().map(|a| a as usize);
            let e = entries.iter().find(|e| e.mask == mask && e.variant_receiver == vr && e.gathered == gathered && e.alt_mask == alt).expect("receiver of this shard");
            let obs = (e.run)(src);
            println!("replay mask={mask:#b} `{src}`: {obs:?}");
            if vr {
                for s in SHAPES {
                    if src.contains(&s.body("Foo")) {
                        let any = mask >> 4 & 1 == 1;
                        let want = if any || admits(mask & 1 == 1, mask >> 1 & 1 == 1, mask >> 2 & 1 == 1, mask >> 3 & 1 == 1, s) { Verdict::Ok } else { Verdict::Err(1) };
                        judge("FromVariant", mask, src, &want, &obs, &mut t);
                        break;
                    }
                }
            } else if let Some((_, b)) = bs.iter().find(|(s, _)| s == src) {
                let want = if e.converts_body && matches!(b, Body::Union) { Verdict::ErrAny } else { expected(mask, b) };
                judge("FromDeriveInput", mask, src, &want, &obs, &mut t);
            }
        }
        for v in &t.violations {
            println!("  DISAGREES: {}", v.what);
        }
        std::process::exit(if t.violations.is_empty() { 0 } else { 1 });
    }
    let out = get("--out").expect("--out");
    let shard: usize = get("--shard").and_then(|s| s.parse().ok()).unwrap_or(0);
    let mut tally = entries
        .par_iter()
        .map(|e| {
            let mut t = Tally::default();
            if e.gathered {
                let any = e.mask >> 4 & 1 == 1;
                for (src, body) in &bs {
                    let want = match body {
                        Body::Union => Verdict::ErrAny,
                        Body::Struct(_) => Verdict::Ok,
                        Body::Enum(vs) => {
                            let bad = vs.iter().filter(|s| !(any || admits(e.mask & 1 == 1, e.mask >> 1 & 1 == 1, e.mask >> 2 & 1 == 1, e.mask >> 3 & 1 == 1, **s))).count();
                            if bad == 0 {
                                Verdict::Ok
                            } else {
                                Verdict::Err(bad)
                            }
                        }
                    };
                    let obs = (e.run)(src);
                    judge("FromDeriveInput gathering FromVariant", e.mask, src, &want, &obs, &mut t);
                }
                t.hit("gathering_receivers");
                return t;
            }
            if e.variant_receiver {
                // mask over VWORDS: named, tuple, newtype, unit, any
                let any = e.mask >> 4 & 1 == 1;
                for s in SHAPES {
                    let src = format!("enum W {{ {}, Other }}", s.body("Foo"));
                    let want = if any || admits(e.mask & 1 == 1, e.mask >> 1 & 1 == 1, e.mask >> 2 & 1 == 1, e.mask >> 3 & 1 == 1, s) { Verdict::Ok } else { Verdict::Err(1) };
                    let obs = (e.run)(&src);
                    judge("FromVariant", e.mask, &src, &want, &obs, &mut t);
                    // API == derived
                    let shapes: Vec<Shape> = (0..4).filter(|i| any || e.mask >> i & 1 == 1).map(|i| SHAPES[i].real()).collect();
                    let api = match crate::catch(std::panic::AssertUnwindSafe(|| ShapeSet::new(shapes).check(&s.real()).is_ok())) {
                        Ok(a) => a,
                        Err(p) => {
                            t.violate(Violation { key: format!("C18 api mask={:#b} shape={s:?} :: panicked: {p}", e.mask), what: format!("ShapeSet::check panicked: {p}"), case: json!({"engine": "shape-api", "set": e.mask}), detail: json!({}) });
                            continue;
                        }
                    };
                    if api != matches!(obs, Obs::Ok(_)) {
                        t.violate(Violation { key: format!("C18 api-vs-derived variant mask={:#b} shape={s:?}", e.mask), what: format!("supports({}) on {s:?}: derived code and ShapeSet API disagree", words_of(e.mask, &VWORDS)), case: json!({"engine": "shape", "mask": e.mask, "src": src, "variant_receiver": true}), detail: json!({}) });
                    }
                    t.hit("api_vs_derived");
                }
                t.hit("variant_receivers");
                return t;
            }
            if let Some(alt) = e.alt_mask {
                for (src, body) in &bs {
                    let obs = (e.run)(src);
                    let mut t1 = Tally::default();
                    let mut t2 = Tally::default();
                    judge("FromDeriveInput (supports written twice: last list)", e.mask, src, &expected(e.mask, body), &obs, &mut t1);
                    judge("FromDeriveInput (supports written twice: union of the lists)", alt, src, &expected(alt, body), &obs, &mut t2);
                    if !t1.violations.is_empty() && !t2.violations.is_empty() {
                        let mut v = t1.violations.remove(0);
                        v.what = format!("{} - nor does the union of the two lists explain it: {}", v.what, t2.violations[0].what);
                        v.case["alt_mask"] = json!(alt);
                        t.violate(v);
                    }
                    t.evaluations += 1;
                    t.hit("supports_written_twice");
                }
                return t;
            }
            for (src, body) in &bs {
                let want = if e.converts_body && matches!(body, Body::Union) { Verdict::ErrAny } else { expected(e.mask, body) };
                let obs = (e.run)(src);
                judge("FromDeriveInput", e.mask, src, &want, &obs, &mut t);
                if let Body::Struct(s) = body {
                    let (n, tu, nt, u, declared) = kind_flags(e.mask, 1);
                    if declared && e.mask & 1 == 0 {
                        let mut shapes = vec![];
                        for (f, sh) in [(n, Shape::Named), (tu, Shape::Tuple), (nt, Shape::Newtype), (u, Shape::Unit)] {
                            if f {
                                shapes.push(sh);
                            }
                        }
                        let api = match crate::catch(std::panic::AssertUnwindSafe(|| ShapeSet::new(shapes).check(&s.real()).is_ok())) {
                            Ok(a) => a,
                            Err(p) => {
                                t.violate(Violation { key: format!("C18 api mask={:#b} src=`{src}` :: panicked: {p}", e.mask), what: format!("ShapeSet::check panicked: {p}"), case: json!({"engine": "shape-api", "set": e.mask}), detail: json!({}) });
                                continue;
                            }
                        };
                        if api != matches!(obs, Obs::Ok(_)) {
                            t.violate(Violation { key: format!("C18 api-vs-derived mask={:#b} src=`{src}`", e.mask), what: format!("supports({}) on `{src}`: derived code and ShapeSet API disagree", words_of(e.mask, &WORDS)), case: json!({"engine": "shape", "mask": e.mask, "src": src}), detail: json!({}) });
                        }
                        t.hit("api_vs_derived");
                    }
                }
            }
            if t.samples.is_empty() && e.mask == 0b0010000100 {
                t.samples.push(json!({"receiver": format!("supports({})", words_of(e.mask, &WORDS)), "input": "enum Foo { V0(u8, u8), V1 }", "expected": "Err with exactly 2 errors (only enum_named admitted)"}));
            }
            t.hit("receivers");
            t
        })
        .reduce(Tally::default, Tally::merge);
    if shard == 0 {
        api_sweep(&mut tally);
    }
    for v in &mut tally.violations {
        v.case["shard"] = json!(shard);
    }
    std::fs::write(&out, serde_json::to_string(&tally).unwrap()).expect("write tally");
}
