//! Column ranges of spans (needs proc-macro2's `span-locations`, enabled by
//! this workspace's own dependency declaration).
use proc_macro2::Span;

/// [start, end) columns on a single-line source; None for call-site spans.
pub fn cols(s: Span) -> Option<(usize, usize)> {
    let a = s.start();
    let b = s.end();
    if a.line == 0 || (a.line == 1 && b.line == 1 && a.column == 0 && b.column == 0) {
        return None;
    }
    Some((a.column, b.column))
}

pub fn within(inner: (usize, usize), outer: (usize, usize)) -> bool {
    outer.0 <= inner.0 && inner.1 <= outer.1
}

pub fn reset() {
    proc_macro2::extra::invalidate_current_thread_spans();
}
