//! C16 explorer: magic fields and body conversion. Receivers are generated from templates
//! (vcheck::c16); expectations are computed from the syn parse of the same source.
use crate::report::{Tally, Violation};
use crate::run::{normalize_display, Obs, Runner};
use darling::Error;
use quote::ToTokens;
use rayon::prelude::*;
use serde_json::json;
use syn::spanned::Spanned;
use vmodel::ir::{Trait, Val};

use crate::tov::ToVal;

pub struct BodyEntry {
    pub name: String,
    pub tr8: Trait,
    /// magic fields present, in declaration order
    pub magic: Vec<String>,
    /// plain | gen_ast | gen_orig | gen_result | data_wrapped | data_with | spanned | original
    pub flavor: String,
    pub run: Runner,
}

fn tok<T: ToTokens>(t: &T) -> Val {
    Val::Tok(crate::run::show(t))
}

/// (k value, error displays) of the `#[a(..)]` attributes in `attrs` (forms are fixed).
fn attr_layer(attrs: &[syn::Attribute]) -> (Val, Vec<Error>) {
    let mut k = Val::None;
    let mut errs = vec![];
    for a in attrs {
        if !a.path().is_ident("a") {
            continue;
        }
        let text = a.to_token_stream().to_string();
        if text.contains("\"bad\"") {
            errs.push(Error::unknown_value("bad").at("k"));
        } else if let Some(i) = text.find("k = ") {
            let n: u64 = text[i + 4..].chars().take_while(|c| c.is_ascii_digit()).collect::<String>().parse().unwrap();
            k = Val::some(Val::U(n));
        }
        if text.contains("zz") {
            errs.push(Error::unknown_field("zz"));
        }
    }
    (k, errs)
}

fn fwd_doc(attrs: &[syn::Attribute]) -> Val {
    Val::List(attrs.iter().filter(|a| a.path().is_ident("doc")).map(tok).collect())
}

fn pick(magic: &[String], all: Vec<(&str, Val)>, k: Val) -> Val {
    let mut rec: Vec<(String, Val)> = vec![];
    for m in magic {
        if let Some((n, v)) = all.iter().find(|(n, _)| n == m) {
            rec.push((n.to_string(), v.clone()));
        }
    }
    rec.push(("k".into(), k));
    Val::Rec(rec)
}

pub const FULL_F: [&str; 4] = ["ident", "vis", "ty", "attrs"];
pub const FULL_V: [&str; 4] = ["ident", "discriminant", "fields", "attrs"];
pub const FULL_T: [&str; 4] = ["ident", "bounds", "default", "attrs"];

fn strs(v: &[&str]) -> Vec<String> {
    v.iter().map(|s| s.to_string()).collect()
}

pub fn exp_field(f: &syn::Field, magic: &[String]) -> Result<Val, Vec<Error>> {
    let (k, errs) = attr_layer(&f.attrs);
    if !errs.is_empty() {
        return Err(errs);
    }
    Ok(pick(
        magic,
        vec![
            ("ident", match &f.ident {
                Some(i) => Val::some(tok(i)),
                None => Val::None,
            }),
            ("vis", tok(&f.vis)),
            ("ty", tok(&f.ty)),
            ("attrs", fwd_doc(&f.attrs)),
        ],
        k,
    ))
}

pub fn exp_fields(fields: &syn::Fields, field_magic: &[String], wrap: &dyn Fn(&syn::Field, Val) -> Val) -> Result<Val, Vec<Error>> {
    let mut vals = vec![];
    let mut errs = vec![];
    for f in fields.iter() {
        match exp_field(f, field_magic) {
            Ok(v) => vals.push(wrap(f, v)),
            Err(es) => {
                for e in es {
                    errs.push(match &f.ident {
                        Some(i) => e.at(i),
                        None => e,
                    });
                }
            }
        }
    }
    if !errs.is_empty() {
        return Err(errs);
    }
    let style = match fields {
        syn::Fields::Named(_) => "Struct",
        syn::Fields::Unnamed(_) => "Tuple",
        syn::Fields::Unit => "Unit",
    };
    Ok(Val::Rec(vec![("style".into(), Val::S(style.into())), ("fields".into(), Val::List(vals))]))
}

pub fn exp_variant(v: &syn::Variant, magic: &[String], wrap_f: &dyn Fn(&syn::Field, Val) -> Val) -> Result<Val, Vec<Error>> {
    let (k, errs) = attr_layer(&v.attrs);
    if !errs.is_empty() {
        return Err(errs);
    }
    let fields = if magic.iter().any(|m| m == "fields") { exp_fields(&v.fields, &strs(&FULL_F), wrap_f)? } else { Val::Unit };
    Ok(pick(
        magic,
        vec![
            ("ident", tok(&v.ident)),
            ("discriminant", match &v.discriminant {
                Some((_, e)) => Val::some(tok(e)),
                None => Val::None,
            }),
            ("fields", fields),
            ("attrs", fwd_doc(&v.attrs)),
        ],
        k,
    ))
}

pub fn exp_type_param(t: &syn::TypeParam, magic: &[String]) -> Result<Val, Vec<Error>> {
    let (k, errs) = attr_layer(&t.attrs);
    if !errs.is_empty() {
        return Err(errs);
    }
    Ok(pick(
        magic,
        vec![
            ("ident", tok(&t.ident)),
            ("bounds", Val::List(t.bounds.iter().map(tok).collect())),
            ("default", match &t.default {
                Some(d) => Val::some(tok(d)),
                None => Val::None,
            }),
            ("attrs", fwd_doc(&t.attrs)),
        ],
        k,
    ))
}

fn spanned(v: Val, span: proc_macro2::Span) -> Val {
    Val::Rec(vec![("spanned".into(), v), ("span".into(), match crate::spans::cols(span) {
        Some((a, b)) => Val::List(vec![Val::U(a as u64), Val::U(b as u64)]),
        None => Val::None,
    })])
}

fn with_original<T: ToTokens>(v: Val, o: &T) -> Val {
    Val::Rec(vec![("parsed".into(), v), ("original".into(), tok(o))])
}

pub fn exp_derive_input(di: &syn::DeriveInput, magic: &[String], flavor: &str) -> Result<Val, Vec<Error>> {
    let (k, errs) = attr_layer(&di.attrs);
    if !errs.is_empty() {
        return Err(errs); // attribute layer first; the body is examined only when it is clean
    }
    // `generics` and `data` are converted in declaration order with `?`
    let mut generics = Val::Unit;
    if magic.iter().any(|m| m == "generics") {
        let ast_view = || -> Result<Val, Vec<Error>> {
            let mut params = vec![];
            for p in &di.generics.params {
                params.push(match p {
                    syn::GenericParam::Type(t) => Val::Var("Type".into(), Box::new(exp_type_param(t, &strs(&FULL_T))?)),
                    syn::GenericParam::Lifetime(l) => Val::Var("Lifetime".into(), Box::new(tok(l))),
                    syn::GenericParam::Const(c) => Val::Var("Const".into(), Box::new(tok(c))),
                });
            }
            let tps: Vec<Val> = params
                .iter()
                .filter_map(|p| match p {
                    Val::Var(k, v) if k == "Type" => Some((**v).clone()),
                    _ => None,
                })
                .collect();
            Ok(Val::Rec(vec![("params".into(), Val::List(params)), ("where".into(), di.generics.where_clause.to_val()), ("type_params".into(), Val::List(tps))]))
        };
        generics = match flavor {
            "gen_ast" => ast_view()?,
            "gen_orig" => with_original(ast_view()?, &di.generics),
            // a `Result`-typed member holds the outcome instead of failing the receiver
            "gen_result" => match ast_view() {
                Ok(g) => Val::Var("Ok".into(), Box::new(g)),
                Err(es) => Val::Var("Err".into(), Box::new(Val::U(es.iter().map(|e| e.len() as u64).sum()))),
            },
            _ => di.generics.to_val(),
        };
    }
    let mut data = Val::Unit;
    if magic.iter().any(|m| m == "data") {
        let wrap_f: Box<dyn Fn(&syn::Field, Val) -> Val> = if flavor == "data_wrapped" { Box::new(|f, v| with_original(v, f)) } else { Box::new(|_, v| v) };
        data = match &di.data {
            syn::Data::Union(_) => return Err(vec![Error::custom("Unions are not supported")]),
            syn::Data::Struct(s) if flavor == "data_builtin" => {
                let style = match &s.fields {
                    syn::Fields::Named(_) => "Struct",
                    syn::Fields::Unnamed(_) => "Tuple",
                    syn::Fields::Unit => "Unit",
                };
                Val::Var("Struct".into(), Box::new(Val::Rec(vec![("style".into(), Val::S(style.into())), ("fields".into(), Val::List(s.fields.iter().map(|f| tok(&f.ty)).collect()))])))
            }
            syn::Data::Enum(e) if flavor == "data_builtin" => Val::Var("Enum".into(), Box::new(Val::List(e.variants.iter().map(|v| tok(&v.ident)).collect()))),
            syn::Data::Struct(s) => Val::Var("Struct".into(), Box::new(exp_fields(&s.fields, &strs(&FULL_F), &wrap_f)?)),
            syn::Data::Enum(e) => {
                let mut vs = vec![];
                let mut errs = vec![];
                for v in &e.variants {
                    match exp_variant(v, &strs(&FULL_V), &|_, x| x) {
                        Ok(val) => vs.push(if flavor == "data_wrapped" { spanned(val, v.span()) } else { val }),
                        Err(es) => errs.extend(es),
                    }
                }
                if !errs.is_empty() {
                    return Err(errs);
                }
                Val::Var("Enum".into(), Box::new(Val::List(vs)))
            }
        };
    }
    Ok(pick(magic, vec![("ident", tok(&di.ident)), ("vis", tok(&di.vis)), ("generics", generics), ("data", data), ("attrs", fwd_doc(&di.attrs))], k))
}

// ------------------------------------------------------------------ inputs

pub const FIELD_FORMS: [(&str, &str, &str); 7] = [
    ("", "pub ", "((dyn Fn(u8) -> u8 + Send))"),
    ("", "", "u8"),
    ("", "pub ", "Vec<T>"),
    ("#[a(k = 1)] ", "pub(crate) ", "&'a str"),
    ("#[a(k = \"bad\")] ", "", "[u8; N]"),
    ("#[doc = \"d\"] ", "pub(in a::b) ", "fn(u8) -> u8"),
    ("#[a(k = \"bad\", zz)] ", "", "(T, u8)"),
];

pub fn variant_form(i: usize, name: &str) -> String {
    match i {
        0 => name.to_string(),
        1 => format!("{name} = 3"),
        2 => format!("{name}(u8)"),
        3 => format!("{name}(u8, #[a(k = \"bad\")] T)"),
        4 => format!("{name} {{ x: u8 }}"),
        5 => format!("#[a(k = \"bad\")] {name} {{ #[a(k = \"bad\")] x: u8, y: T }}"),
        6 => format!("#[a(k = 2)] #[doc = \"v\"] {name} = 1 + 2"),
        7 => format!("{name} {{ #[a(k = \"bad\")] x: u8, #[a(zz)] y: T }}"),
        8 => format!("{name}(u8) = 4"),
        9 => format!("#[a(k = 3)] {name} {{ x: u8 }} = 5"),
        10 => format!("{name}() = 6"),
        11 => format!("{name} {{ #[a(k = \"bad\", zz)] x: u8 }}"),
        12 => format!("{name} {{ y: u8, #[a(k = \"bad\", zz)] x: (T, u8) }}"),
        // a discriminant is handed over as the expression it is, whatever it looks like
        13 => format!("{name} = \"two words\""),
        _ => unreachable!(),
    }
}
pub const N_VARIANT_FORMS: usize = 14;

pub const GENERICS: [(&str, &str); 9] = [
    // a where-clause without predicates is still a where-clause
    ("<T>", " where"),
    ("", " where"),
    ("<T, const N: usize, U: Send, 'a, X = u8>", ""),
    ("", " where u8: Copy"),
    ("", ""),
    ("<'a>", ""),
    ("<'a, T: Clone + 'a = u8, const N: usize = 3>", ""),
    ("<T>", " where T: Copy"),
    ("<#[a(k = 1)] T, #[a(k = \"bad\")] U: Send>", ""),
];
pub const TYPE_PARAM_FORMS: [&str; 5] = ["T", "T: Clone + 'a", "T = u8", "#[a(k = 1)] #[doc = \"p\"] T: Send = Vec<u8>", "#[a(k = \"bad\")] T"];
pub const HEADS: [(&str, &str); 5] = [("", ""), ("", "pub "), ("#[a(k = 7)] ", "pub(super) "), ("#[doc = \"c\"] #[a(k = 7)] ", ""), ("#[a(k = \"bad\")] ", "pub ")];

fn sequences(alpha: usize, maxlen: usize) -> Vec<Vec<usize>> {
    let mut out = vec![vec![]];
    let mut frontier: Vec<Vec<usize>> = vec![vec![]];
    for _ in 0..maxlen {
        let mut next = vec![];
        for s in &frontier {
            for a in 0..alpha {
                let mut n = s.clone();
                n.push(a);
                next.push(n);
            }
        }
        out.extend(next.iter().cloned());
        frontier = next;
    }
    out
}

/// Every DeriveInput source of the exploration.
pub fn derive_inputs(thorough: bool) -> Vec<String> {
    let mut bodies: Vec<(String, bool)> = vec![]; // (text after `NAME<generics>`, is_enum); `{W}` marks the where-clause slot
    let flen = if thorough { 4 } else { 3 };
    for seq in sequences(FIELD_FORMS.len(), flen) {
        let named: Vec<String> = seq.iter().enumerate().map(|(i, f)| format!("{}{}x{i}: {}", FIELD_FORMS[*f].0, FIELD_FORMS[*f].1, FIELD_FORMS[*f].2)).collect();
        bodies.push((format!("{{W}} {{ {} }}", named.join(", ")), false));
        let unnamed: Vec<String> = seq.iter().map(|f| format!("{}{}{}", FIELD_FORMS[*f].0, FIELD_FORMS[*f].1, FIELD_FORMS[*f].2)).collect();
        bodies.push((format!("({}){{W}};", unnamed.join(", ")), false));
    }
    bodies.push(("{W};".into(), false));
    let vlen = if thorough { 3 } else { 2 };
    for seq in sequences(N_VARIANT_FORMS, vlen) {
        let vs: Vec<String> = seq.iter().enumerate().map(|(i, f)| variant_form(*f, &format!("V{i}"))).collect();
        bodies.push((format!("{{W}} {{ {} }}", vs.join(", ")), true));
    }
    // long bodies: the field / variant forms in rotation (every starting offset) at 6, 9, 17 members
    for n in [6usize, 9, 17] {
        for off in 0..FIELD_FORMS.len() {
            let named: Vec<String> = (0..n).map(|i| { let f = FIELD_FORMS[(off + i) % FIELD_FORMS.len()]; format!("{}{}x{i}: {}", f.0, f.1, f.2) }).collect();
            bodies.push((format!("{{W}} {{ {} }}", named.join(", ")), false));
            let unnamed: Vec<String> = (0..n).map(|i| { let f = FIELD_FORMS[(off + i) % FIELD_FORMS.len()]; format!("{}{}{}", f.0, f.1, f.2) }).collect();
            bodies.push((format!("({}){{W}};", unnamed.join(", ")), false));
        }
        for off in 0..N_VARIANT_FORMS {
            let vs: Vec<String> = (0..n).map(|i| variant_form((off + i) % N_VARIANT_FORMS, &format!("V{i}"))).collect();
            bodies.push((format!("{{W}} {{ {} }}", vs.join(", ")), true));
        }
    }
    let mut out = vec![];
    for (body, is_enum) in &bodies {
        for (gi, (g, w)) in GENERICS.iter().enumerate() {
            for (hi, (attrs, vis)) in HEADS.iter().enumerate() {
                // full product for short bodies, a diagonal for the rest
                if body.len() > 40 && (gi + hi) % 5 != 0 && !thorough {
                    continue;
                }
                let kw = if *is_enum { "enum" } else { "struct" };
                out.push(format!("{attrs}{vis}{kw} Foo{g}{}", body.replace("{W}", w)));
            }
        }
    }
    for (g, w) in GENERICS {
        out.push(format!("pub struct r#Type{g}{w} {{ r#type: u8, #[a(k = \"bad\")] r#fn: u8, plain: u8 }}"));
        out.push(format!("enum r#Enum{g}{w} {{ r#Match, #[a(k = \"bad\")] r#Loop {{ #[a(k = \"bad\")] r#x: u8 }}, Plain(u8) }}"));
        out.push(format!("pub union Foo{g}{w} {{ a: u8, b: u16 }}"));
        out.push(format!("#[a(k = 7)] union Foo{g}{w} {{ a: u8 }}"));
    }
    out
}

// ------------------------------------------------------------------ judging

fn judge(entry: &BodyEntry, src: &str, exp: &Result<Val, Vec<Error>>, obs: &Obs, t: &mut Tally) {
    t.evaluations += 1;
    let mut complaint: Option<String> = None;
    match (obs, exp) {
        (Obs::NoParse(e), _) => {
            t.hit("generator_unparseable");
            complaint = Some(format!("machinery: source does not parse: {e}"));
        }
        (Obs::Panic(p), _) => complaint = Some(format!("panicked: {p}")),
        (Obs::Ok(v), Ok(w)) => {
            t.hit("expect_ok");
            if v != w {
                complaint = Some(format!("value differs from the input element:\n    got      {v:?}\n    expected {w:?}"));
            }
        }
        (Obs::Ok(v), Err(es)) => {
            t.hit("expect_err");
            t.nontrivial += 1;
            complaint = Some(format!("accepted (as {v:?}) although {} element(s) fail: {:?}", es.len(), es.iter().map(|e| e.to_string()).collect::<Vec<_>>()));
        }
        (Obs::Err { leaves, .. }, Ok(_)) => {
            t.hit("expect_ok");
            complaint = Some(format!("rejected a convertible element: {:?}", leaves.iter().map(|l| &l.display).collect::<Vec<_>>()));
        }
        (Obs::Err { leaves, len, .. }, Err(es)) => {
            t.hit("expect_err");
            t.nontrivial += 1;
            t.class(&format!("failing={}", es.len().min(6)));
            let mut got: Vec<String> = leaves.iter().map(|l| normalize_display(&l.display)).collect();
            let mut want: Vec<String> = es.iter().map(|e| e.to_string()).collect();
            got.sort();
            want.sort();
            // generics conversion is fail-fast by design of FromGenerics; only require a subset there
            let generic_flavor = entry.flavor.starts_with("gen_") && src.contains("U: Send");
            let ok = if generic_flavor { !got.is_empty() && got.iter().all(|g| want.contains(g)) } else { got == want && *len == want.len() };
            if !ok {
                complaint = Some(format!("errors {got:?} (len() = {len}), expected {want:?}"));
            }
        }
    }
    if let Some(c) = complaint {
        t.violate(Violation {
            key: format!("C16 receiver={} flavor={} src=`{src}` :: {c}", entry.name, entry.flavor),
            what: format!("[{} {:?} {}] `{src}`: {c}", entry.name, entry.magic, entry.flavor),
            case: json!({"engine": "body", "receiver": entry.name, "src": src}),
            detail: json!({"observed": format!("{obs:?}")}),
        });
    }
}

fn element_cases(thorough: bool) -> (Vec<String>, Vec<String>, Vec<String>) {
    let _ = thorough;
    // sources whose first field / variant / type parameter is the element under test
    let mut f = vec![];
    for (a, v, ty) in FIELD_FORMS {
        f.push(format!("struct W {{ {a}{v}foo: {ty}, other: u8 }}"));
        f.push(format!("struct W({a}{v}{ty}, u8);"));
    }
    // raw identifiers are handed over as written
    for (a, v, ty) in FIELD_FORMS {
        f.push(format!("struct W {{ {a}{v}r#type: {ty}, r#fn: u8 }}"));
    }
    let mut v = vec![];
    for i in 0..N_VARIANT_FORMS {
        v.push(format!("enum W {{ {}, Other }}", variant_form(i, "Foo")));
        v.push(format!("enum W {{ {}, r#Other }}", variant_form(i, "r#Match").replace(" x:", " r#x:")));
    }
    let mut tp = vec![];
    for p in TYPE_PARAM_FORMS {
        tp.push(format!("struct W<{p}, U>(T, U);"));
        tp.push(format!("enum W<'a, {p}> {{ A(&'a T) }}"));
        tp.push(format!("struct W<{}, U>(r#T, U);", p.replace("T", "r#T")));
    }
    (f, v, tp)
}

pub fn expectation(entry: &BodyEntry, src: &str) -> Option<Result<Val, Vec<Error>>> {
    let r = expectation_inner(entry, src)?;
    if entry.flavor == "from_ident" {
        // an absent `k` comes from the `From<Ident>` value (99); `ident` is still the input's
        return Some(r.map(|v| match v {
            Val::Rec(fs) => Val::Rec(fs.into_iter().map(|(n, x)| if n == "k" && x == Val::None { (n, Val::some(Val::U(99))) } else { (n, x) }).collect()),
            other => other,
        }));
    }
    Some(r)
}

fn expectation_inner(entry: &BodyEntry, src: &str) -> Option<Result<Val, Vec<Error>>> {
    let di: syn::DeriveInput = crate::run::parse_input(src).ok()?;
    Some(match entry.tr8 {
        Trait::FromDeriveInput => {
            use syn::spanned::Spanned;
            let base = exp_derive_input(&di, &entry.magic, &entry.flavor);
            match entry.flavor.as_str() {
                "spanned" => base.map(|v| spanned(v, di.span())),
                "original" => base.map(|v| with_original(v, &di)),
                _ => base,
            }
        }
        Trait::FromField => {
            let f = match &di.data {
                syn::Data::Struct(s) => s.fields.iter().next()?.clone(),
                _ => return None,
            };
            let base = exp_field(&f, &entry.magic);
            match entry.flavor.as_str() {
                "spanned" => base.map(|v| spanned(v, f.span())),
                "original" => base.map(|v| with_original(v, &f)),
                _ => base,
            }
        }
        Trait::FromVariant => {
            let v = match &di.data {
                syn::Data::Enum(e) => e.variants.iter().next()?.clone(),
                _ => return None,
            };
            let base = if entry.flavor == "fields_builtin" {
                // `Fields<syn::Type>`: each entry is the field's type, unchanged; field attributes
                // are not looked at
                let (k, errs) = attr_layer(&v.attrs);
                if errs.is_empty() {
                    let style = match &v.fields {
                        syn::Fields::Named(_) => "Struct",
                        syn::Fields::Unnamed(_) => "Tuple",
                        syn::Fields::Unit => "Unit",
                    };
                    let fields = Val::Rec(vec![("style".into(), Val::S(style.into())), ("fields".into(), Val::List(v.fields.iter().map(|f| tok(&f.ty)).collect()))]);
                    Ok(pick(&entry.magic, vec![("ident", tok(&v.ident)), ("fields", fields)], k))
                } else {
                    Err(errs)
                }
            } else {
                exp_variant(&v, &entry.magic, &|_, x| x)
            };
            // receivers that also declare supports(..): the shape verdict belongs to the
            // attribute layer, so it is reported together with the variant's own attribute
            // errors and the body is only converted when that layer is clean
            let base = if let Some(words) = entry.flavor.strip_prefix("supports:") {
                use darling::util::{Shape, ShapeSet};
                let set: ShapeSet = words
                    .split(',')
                    .flat_map(|w| match w {
                        "named" => vec![Shape::Named],
                        "tuple" => vec![Shape::Tuple],
                        "newtype" => vec![Shape::Newtype],
                        "unit" => vec![Shape::Unit],
                        _ => vec![Shape::Named, Shape::Tuple, Shape::Newtype, Shape::Unit],
                    })
                    .collect();
                let (_, mut attr_errs) = attr_layer(&v.attrs);
                if let Err(e) = set.check(&v.fields) {
                    attr_errs.insert(0, e);
                }
                if attr_errs.is_empty() {
                    base
                } else {
                    Err(attr_errs)
                }
            } else {
                base
            };
            match entry.flavor.as_str() {
                "spanned" => base.map(|x| spanned(x, v.span())),
                "original" => base.map(|x| with_original(x, &v)),
                _ => base,
            }
        }
        Trait::FromTypeParam => {
            let tp = di.generics.type_params().next()?.clone();
            let base = exp_type_param(&tp, &entry.magic);
            match entry.flavor.as_str() {
                "spanned" => base.map(|x| spanned(x, tp.span())),
                "original" => base.map(|x| with_original(x, &tp)),
                _ => base,
            }
        }
        _ => return None,
    })
}

/// Re-printing a converted field list reproduces the original fields (up to a trailing comma).
fn reprint_check(src: &str, t: &mut Tally) {
    let Ok(di) = syn::parse_str::<syn::DeriveInput>(src) else { return };
    let mut lists: Vec<syn::Fields> = vec![];
    match &di.data {
        syn::Data::Struct(s) => lists.push(s.fields.clone()),
        syn::Data::Enum(e) => lists.extend(e.variants.iter().map(|v| v.fields.clone())),
        syn::Data::Union(_) => {}
    }
    for fields in lists {
        t.evaluations += 1;
        t.hit("reprint_checked");
        let conv = match crate::catch(std::panic::AssertUnwindSafe(|| darling::ast::Fields::<syn::Field>::try_from(&fields))) {
            Ok(Ok(c)) => c,
            other => {
                t.violate(Violation { key: format!("C16 reprint src=`{src}` conversion failed"), what: format!("`{src}`: Fields::<syn::Field>::try_from failed: {:?}", other.map(|r| r.map(|_| ()).map_err(|e| e.to_string()))), case: json!({"engine": "body-reprint", "src": src}), detail: json!({}) });
                continue;
            }
        };
        let norm = |s: String| s.replace(' ', "").replace(",}", "}").replace(",)", ")");
        let got = norm(conv.to_token_stream().to_string());
        let want = norm(fields.to_token_stream().to_string());
        if got != want {
            t.violate(Violation {
                key: format!("C16 reprint src=`{src}` :: `{got}` != `{want}`"),
                what: format!("`{src}`: converted field list re-prints as `{got}`, the input has `{want}`"),
                case: json!({"engine": "body-reprint", "src": src}),
                detail: json!({}),
            });
        }
    }
    crate::spans::reset();
}

pub fn main(entries: Vec<BodyEntry>) {
    crate::install_quiet_hook();
    let args: Vec<String> = std::env::args().collect();
    let get = |k: &str| args.iter().position(|a| a == k).and_then(|i| args.get(i + 1)).cloned();
    let thorough = get("--tier").as_deref() == Some("thorough");
    if let Some(rp) = get("--replay") {
        let txt = std::fs::read_to_string(&rp).expect("replay file");
        let v: serde_json::Value = serde_json::from_str(&txt).unwrap();
        let c = &v["case"];
        let src = c["src"].as_str().unwrap();
        let mut t = Tally::default();
        if c["engine"] == "body-reprint" {
            reprint_check(src, &mut t);
        } else {
            let e = entries.iter().find(|e| e.name == c["receiver"].as_str().unwrap()).expect("receiver");
            let exp = expectation(e, src).expect("expectation");
            let obs = (e.run)(src);
            println!("replay [{} {:?} {}]\n  src: {src}\n  expected: {:?}\n  observed: {obs:?}", e.name, e.magic, e.flavor, exp.as_ref().map_err(|es| es.iter().map(|x| x.to_string()).collect::<Vec<_>>()));
            judge(e, src, &exp, &obs, &mut t);
        }
        for v in &t.violations {
            println!("  DISAGREES: {}", v.what);
        }
        std::process::exit(if t.violations.is_empty() { 0 } else { 1 });
    }
    let out = get("--out").expect("--out");
    let shard: usize = get("--shard").and_then(|s| s.parse().ok()).unwrap_or(0);
    let dis = derive_inputs(thorough);
    let (fs, vs, tps) = element_cases(thorough);
    let mut tally = entries
        .par_iter()
        .map(|e| {
            let mut t = Tally::default();
            let inputs: &Vec<String> = match e.tr8 {
                Trait::FromDeriveInput => &dis,
                Trait::FromField => &fs,
                Trait::FromVariant => &vs,
                _ => &tps,
            };
            for src in inputs {
                let Some(exp) = expectation(e, src) else {
                    t.hit("generator_unparseable");
                    continue;
                };
                let obs = (e.run)(src);
                judge(e, src, &exp, &obs, &mut t);
                // the same item assembled in code (optional punctuation absent, forwarded
                // fragments in invisible groups): every part still arrives unchanged
                let built_src = format!("{src}{}", crate::run::BUILT);
                if let Some(exp_b) = expectation(e, &built_src) {
                    let obs_b = (e.run)(&built_src);
                    judge(e, &built_src, &exp_b, &obs_b, &mut t);
                    t.hit("built_in_code");
                }
                if t.samples.is_empty() && exp.is_err() && src.len() > 60 {
                    t.samples.push(json!({"receiver": e.name, "magic": e.magic, "flavor": e.flavor, "src": src, "observed": format!("{obs:?}").chars().take(400).collect::<String>()}));
                }
            }
            t.hit("receivers");
            t
        })
        .reduce(Tally::default, Tally::merge);
    if shard == 0 {
        let t2 = dis.par_iter().map(|src| {
            let mut t = Tally::default();
            reprint_check(src, &mut t);
            t
        }).reduce(Tally::default, Tally::merge);
        tally = tally.merge(t2);
        tally.counters.insert("derive_inputs".into(), dis.len() as u64);
    }
    for v in &mut tally.violations {
        v.case["shard"] = json!(shard);
    }
    std::fs::write(&out, serde_json::to_string(&tally).unwrap()).expect("write tally");
}
