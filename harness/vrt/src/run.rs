//! Runners: parse single-line source with real column spans, call a derived entry point under
//! `catch_unwind`, and render the outcome for comparison with the reference interpreter.
use crate::tov::ToVal;
use crate::{catch, spans};
use darling::{Error, FromMeta};
use vmodel::input::Cols;
use vmodel::interp::{Leaf, Msg, Region};
use vmodel::ir::Val;

#[derive(Clone, Debug, PartialEq)]
pub struct LeafObs {
    /// full Display (message + ` at path`)
    pub display: String,
    pub span: Option<Cols>,
    /// message of the compiler diagnostic this leaf converts to
    pub diag: String,
}

#[derive(Clone, Debug, PartialEq)]
pub enum Obs {
    Ok(Val),
    Err { leaves: Vec<LeafObs>, len: usize, diag_spans: Vec<Option<Cols>> },
    Panic(String),
    /// the generated source does not parse (machinery problem)
    NoParse(String),
}

pub fn render_err(e: Error) -> Obs {
    let len = e.len();
    let leaves: Vec<LeafObs> = e
        .clone()
        .flatten()
        .into_iter()
        .map(|l| {
            let span = l.explicit_span().and_then(spans::cols);
            let display = l.to_string();
            let diag = syn::Error::from(l).to_string();
            LeafObs { display, span, diag }
        })
        .collect();
    // compiler output: one compile_error! per leaf; the span of its tokens
    let mut diag_spans = vec![];
    if let Ok(file) = syn::parse2::<syn::File>(e.write_errors()) {
        for it in &file.items {
            if let syn::Item::Macro(m) = it {
                let sp = m.mac.tokens.clone().into_iter().next().map(|t| t.span()).and_then(spans::cols);
                diag_spans.push(sp);
            }
        }
    }
    Obs::Err { leaves, len, diag_spans }
}

fn finish<T: ToVal>(r: Result<darling::Result<T>, String>) -> Obs {
    let o = match r {
        Ok(Ok(v)) => Obs::Ok(v.to_val()),
        Ok(Err(e)) => match catch(std::panic::AssertUnwindSafe(|| render_err(e))) {
            Ok(o) => o,
            Err(p) => Obs::Panic(format!("while rendering the error: {p}")),
        },
        Err(p) => Obs::Panic(p),
    };
    spans::reset();
    o
}

pub type Runner = fn(&str) -> Obs;

/// Marker (a trailing comment, so columns do not move): every `name = value` inside an attribute
/// is delivered the way a `macro_rules!` `$e:expr` forwards it, in an invisible group.
pub const GROUPED: &str = "/*G*/";

pub fn group_values(ts: proc_macro2::TokenStream, in_attr: bool) -> proc_macro2::TokenStream {
    group_values_n(ts, in_attr, 1)
}

/// Marker for two nested invisible groups (a fragment forwarded through two macros).
pub const GROUPED2: &str = "/*GG*/";

pub fn group_values_n(ts: proc_macro2::TokenStream, in_attr: bool, depth: usize) -> proc_macro2::TokenStream {
    use proc_macro2::{Delimiter, Group, Spacing, TokenTree};
    let toks: Vec<TokenTree> = ts.into_iter().collect();
    let mut out: Vec<TokenTree> = vec![];
    let mut i = 0;
    while i < toks.len() {
        let is_eq = |t: Option<&TokenTree>| matches!(t, Some(TokenTree::Punct(p)) if p.as_char() == '=' && p.spacing() == Spacing::Alone);
        let prev_is_name = matches!(out.last(), Some(TokenTree::Ident(_)));
        if in_attr && is_eq(toks.get(i)) && prev_is_name && !is_eq(toks.get(i + 1)) {
            out.push(toks[i].clone());
            let mut j = i + 1;
            let mut inner: Vec<TokenTree> = vec![];
            while j < toks.len() && !matches!(&toks[j], TokenTree::Punct(p) if p.as_char() == ',') {
                inner.push(toks[j].clone());
                j += 1;
            }
            if !inner.is_empty() {
                let span = inner[0].span().join(inner[inner.len() - 1].span()).unwrap_or_else(|| inner[0].span());
                let mut g = Group::new(Delimiter::None, inner.into_iter().collect());
                g.set_span(span);
                for _ in 1..depth {
                    let mut outer = Group::new(Delimiter::None, std::iter::once(TokenTree::Group(g)).collect());
                    outer.set_span(span);
                    g = outer;
                }
                out.push(TokenTree::Group(g));
            }
            i = j;
            continue;
        }
        match &toks[i] {
            TokenTree::Group(g) if g.delimiter() != Delimiter::None => {
                let after_pound = matches!(out.last(), Some(TokenTree::Punct(p)) if p.as_char() == '#');
                let enter = in_attr || (after_pound && g.delimiter() == Delimiter::Bracket);
                let mut ng = Group::new(g.delimiter(), group_values_n(g.stream(), enter, depth));
                ng.set_span(g.span());
                out.push(TokenTree::Group(ng));
            }
            t => out.push(t.clone()),
        }
        i += 1;
    }
    out.into_iter().collect()
}

/// Marker: the item as a macro would assemble it in code rather than parse it from text -
/// optional punctuation absent (`:` before bounds, `=` before a default, `<` `>` around the
/// parameters, trailing commas; syn prints the same tokens either way), discriminants and every
/// other field type forwarded inside an invisible group.
pub const BUILT: &str = "/*P*/";

fn built(mut di: syn::DeriveInput) -> syn::DeriveInput {
    for p in di.generics.params.iter_mut() {
        match p {
            syn::GenericParam::Type(t) => {
                t.colon_token = None;
                t.eq_token = None;
                t.bounds = std::mem::take(&mut t.bounds).into_iter().collect();
            }
            syn::GenericParam::Lifetime(l) => {
                l.colon_token = None;
                l.bounds = std::mem::take(&mut l.bounds).into_iter().collect();
            }
            syn::GenericParam::Const(c) => c.eq_token = None,
        }
    }
    di.generics.params = std::mem::take(&mut di.generics.params).into_iter().collect();
    di.generics.lt_token = None;
    di.generics.gt_token = None;
    fn fields(fs: &mut syn::Fields) {
        let group = |ty: &mut syn::Type| {
            let inner = std::mem::replace(ty, syn::Type::Verbatim(Default::default()));
            *ty = syn::Type::Group(syn::TypeGroup { group_token: Default::default(), elem: Box::new(inner) });
        };
        match fs {
            syn::Fields::Named(n) => {
                for (i, f) in n.named.iter_mut().enumerate() {
                    f.colon_token = None;
                    if i % 2 == 0 {
                        group(&mut f.ty);
                    }
                }
                n.named = std::mem::take(&mut n.named).into_iter().collect();
            }
            syn::Fields::Unnamed(u) => {
                for (i, f) in u.unnamed.iter_mut().enumerate() {
                    if i % 2 == 0 {
                        group(&mut f.ty);
                    }
                }
                u.unnamed = std::mem::take(&mut u.unnamed).into_iter().collect();
            }
            syn::Fields::Unit => {}
        }
    }
    match &mut di.data {
        syn::Data::Struct(s) => fields(&mut s.fields),
        syn::Data::Enum(e) => {
            for v in e.variants.iter_mut() {
                fields(&mut v.fields);
                if let Some((_, d)) = &mut v.discriminant {
                    let inner = std::mem::replace(d, syn::Expr::Verbatim(Default::default()));
                    *d = syn::Expr::Group(syn::ExprGroup { attrs: vec![], group_token: Default::default(), expr: Box::new(inner) });
                }
            }
            e.variants = std::mem::take(&mut e.variants).into_iter().collect();
        }
        syn::Data::Union(u) => {
            for f in u.fields.named.iter_mut() {
                f.colon_token = None;
            }
        }
    }
    di
}

/// Token text in which invisible groups are visible (as `{ __invisible__ .. }`), so that a value
/// that lost or gained one does not print like the original.
pub fn show<T: quote::ToTokens>(t: &T) -> String {
    fn walk(ts: proc_macro2::TokenStream) -> proc_macro2::TokenStream {
        use proc_macro2::{Delimiter, Group, Ident, Span, TokenTree};
        ts.into_iter()
            .map(|tt| match tt {
                TokenTree::Group(g) => {
                    let inner = walk(g.stream());
                    if g.delimiter() == Delimiter::None {
                        let mut v: Vec<TokenTree> = vec![TokenTree::Ident(Ident::new("__invisible__", Span::call_site()))];
                        v.extend(inner);
                        TokenTree::Group(Group::new(Delimiter::Brace, v.into_iter().collect()))
                    } else {
                        TokenTree::Group(Group::new(g.delimiter(), inner))
                    }
                }
                other => other,
            })
            .collect()
    }
    walk(t.to_token_stream()).to_string()
}

pub fn parse_input(src: &str) -> syn::Result<syn::DeriveInput> {
    if let Some(plain) = src.strip_suffix(BUILT) {
        return syn::parse_str(plain).map(built);
    }
    let (plain, depth) = match (src.strip_suffix(GROUPED), src.strip_suffix(GROUPED2)) {
        (Some(p), _) => (p, 1),
        (_, Some(p)) => (p, 2),
        _ => return syn::parse_str(src),
    };
    // the plain text must be an item in the first place
    let _: syn::DeriveInput = syn::parse_str(plain)?;
    let ts: proc_macro2::TokenStream = plain.parse()?;
    syn::parse2(group_values_n(ts, false, depth))
}

/// `src` = `#[<item>] struct S;` — converts the attribute's meta with `T::from_meta`.
pub fn run_from_meta<T: FromMeta + ToVal>(src: &str) -> Obs {
    let di: syn::DeriveInput = match parse_input(src) {
        Ok(d) => d,
        Err(e) => return Obs::NoParse(e.to_string()),
    };
    finish(catch(std::panic::AssertUnwindSafe(|| T::from_meta(&di.attrs[0].meta))))
}

/// `T::from_none()` (src ignored): Ok(None-marker) when the type has no value-for-absent.
pub fn run_from_none<T: FromMeta + ToVal>(_src: &str) -> Obs {
    match catch(std::panic::AssertUnwindSafe(|| T::from_none())) {
        Ok(Some(v)) => Obs::Ok(Val::Some(Box::new(v.to_val()))),
        Ok(None) => Obs::Ok(Val::None),
        Err(p) => Obs::Panic(p),
    }
}

pub fn run_from_derive_input<T: darling::FromDeriveInput + ToVal>(src: &str) -> Obs {
    let di: syn::DeriveInput = match parse_input(src) {
        Ok(d) => d,
        Err(e) => return Obs::NoParse(e.to_string()),
    };
    finish(catch(std::panic::AssertUnwindSafe(|| T::from_derive_input(&di))))
}

/// Marker: hand the attributes over as inner-style attributes (`#![..]`), the way the attribute
/// list of a module, an impl block or a file carries them.
pub const INNER: &str = "/*I*/";

pub fn run_from_attributes<T: darling::FromAttributes + ToVal>(src: &str) -> Obs {
    let (src, inner) = match src.strip_suffix(INNER) {
        Some(s) => (s, true),
        None => (src, false),
    };
    let mut di: syn::DeriveInput = match parse_input(src) {
        Ok(d) => d,
        Err(e) => return Obs::NoParse(e.to_string()),
    };
    if inner {
        for a in di.attrs.iter_mut() {
            a.style = syn::AttrStyle::Inner(Default::default());
        }
    }
    finish(catch(std::panic::AssertUnwindSafe(|| T::from_attributes(&di.attrs))))
}

pub fn run_from_field<T: darling::FromField + ToVal>(src: &str) -> Obs {
    let di: syn::DeriveInput = match parse_input(src) {
        Ok(d) => d,
        Err(e) => return Obs::NoParse(e.to_string()),
    };
    let field = match &di.data {
        syn::Data::Struct(s) => match s.fields.iter().next() {
            Some(f) => f.clone(),
            None => return Obs::NoParse("no field".into()),
        },
        _ => return Obs::NoParse("not a struct".into()),
    };
    finish(catch(std::panic::AssertUnwindSafe(|| T::from_field(&field))))
}

pub fn run_from_variant<T: darling::FromVariant + ToVal>(src: &str) -> Obs {
    let di: syn::DeriveInput = match parse_input(src) {
        Ok(d) => d,
        Err(e) => return Obs::NoParse(e.to_string()),
    };
    let v = match &di.data {
        syn::Data::Enum(e) => match e.variants.iter().next() {
            Some(v) => v.clone(),
            None => return Obs::NoParse("no variant".into()),
        },
        _ => return Obs::NoParse("not an enum".into()),
    };
    finish(catch(std::panic::AssertUnwindSafe(|| T::from_variant(&v))))
}

pub fn run_from_type_param<T: darling::FromTypeParam + ToVal>(src: &str) -> Obs {
    let di: syn::DeriveInput = match parse_input(src) {
        Ok(d) => d,
        Err(e) => return Obs::NoParse(e.to_string()),
    };
    let tp = match di.generics.type_params().next() {
        Some(t) => t.clone(),
        None => return Obs::NoParse("no type param".into()),
    };
    finish(catch(std::panic::AssertUnwindSafe(|| T::from_type_param(&tp))))
}

// ------------------------------------------------------------------ expectation rendering

/// The Display text darling's own constructor gives this kind of message (None = not compared).
pub fn msg_text(m: &Msg) -> Option<String> {
    Some(match m {
        Msg::Unknown(n) => Error::unknown_field(n).to_string(),
        Msg::Duplicate(n) => Error::duplicate_field(n).to_string(),
        Msg::Missing(n) => Error::missing_field(n).to_string(),
        Msg::Format(f) => Error::unsupported_format(f).to_string(),
        Msg::UnknownValue(v) => Error::unknown_value(v).to_string(),
        Msg::UnexpectedType(t) => Error::unexpected_type(t).to_string(),
        Msg::Custom(s) => Error::custom(s).to_string(),
        Msg::TooFew(n) => Error::too_few_items(*n).to_string(),
        Msg::TooMany(n) => Error::too_many_items(*n).to_string(),
        Msg::Any => return None,
    })
}

/// Observed Display with the suggestion suffix removed and `multiple` indices wildcarded.
pub fn normalize_display(d: &str) -> String {
    let mut s = d.to_string();
    if let Some(i) = s.find(". Did you mean `") {
        if let Some(j) = s[i..].find("`?") {
            s.replace_range(i..i + j + 2, "");
        }
    }
    // name[12] -> name[*]
    let mut out = String::new();
    let cs: Vec<char> = s.chars().collect();
    let mut i = 0;
    while i < cs.len() {
        if cs[i] == '[' {
            let mut j = i + 1;
            while j < cs.len() && cs[j].is_ascii_digit() {
                j += 1;
            }
            if j > i + 1 && j < cs.len() && cs[j] == ']' {
                out.push_str("[*]");
                i = j + 1;
                continue;
            }
        }
        out.push(cs[i]);
        i += 1;
    }
    out
}

fn path_suffix(path: &[String]) -> String {
    if path.is_empty() {
        String::new()
    } else {
        format!(" at {}", path.join("/"))
    }
}

/// Does observed leaf `o` have the message and path of expected leaf `l`?
pub fn leaf_matches(l: &Leaf, o: &LeafObs) -> bool {
    let d = normalize_display(&o.display);
    let suffix = path_suffix(&l.path);
    match msg_text(&l.msg) {
        Some(t) => d == format!("{t}{suffix}"),
        None => {
            if suffix.is_empty() {
                !d.contains(" at ")
            } else {
                d.ends_with(&suffix)
            }
        }
    }
}

pub fn region_ok(l: &Leaf, o: &LeafObs) -> Result<(), String> {
    match (l.region, o.span) {
        (Region::In(r), Some(s)) => {
            if spans::within(s, r) {
                Ok(())
            } else {
                Err(format!("span {s:?} is not inside the offending item {r:?}"))
            }
        }
        (Region::In(r), None) => Err(format!("no span, expected one inside {r:?}")),
        (Region::Root, Some(_)) => Ok(()),
        (Region::Root, None) => {
            // unspanned: the rendered diagnostic must carry the location path
            let suffix = path_suffix(&l.path);
            if suffix.is_empty() || normalize_display(&o.diag).ends_with(&suffix) {
                Ok(())
            } else {
                Err(format!("unspanned leaf renders as `{}` without its location path", o.diag))
            }
        }
    }
}

/// Matches expected leaves to observed leaves one-to-one by message+path (preferring matches
/// whose span satisfies the region). Returns (unmatched expected, unmatched observed, span
/// complaints for matched pairs).
pub fn match_leaves(exp: &[Leaf], obs: &[LeafObs]) -> (Vec<Leaf>, Vec<LeafObs>, Vec<String>) {
    let mut used = vec![false; obs.len()];
    let mut missing = vec![];
    let mut span_complaints = vec![];
    for l in exp {
        let mut pick: Option<usize> = None;
        for (i, o) in obs.iter().enumerate() {
            if !used[i] && leaf_matches(l, o) {
                if region_ok(l, o).is_ok() {
                    pick = Some(i);
                    break;
                }
                if pick.is_none() {
                    pick = Some(i);
                }
            }
        }
        match pick {
            Some(i) => {
                used[i] = true;
                if let Err(c) = region_ok(l, &obs[i]) {
                    span_complaints.push(format!("`{}`: {c}", obs[i].display));
                }
            }
            None => missing.push(l.clone()),
        }
    }
    let extra: Vec<LeafObs> = obs.iter().enumerate().filter(|(i, _)| !used[*i]).map(|(_, o)| o.clone()).collect();
    (missing, extra, span_complaints)
}
