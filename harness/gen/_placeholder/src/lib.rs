//! Keeps the `gen/*` workspace glob non-empty; generated corpus crates live next to it.
